#!/bin/bash
# Offline setup: install icontract + deal beside the repo's interpreter (into /verif/.deps).
set -e
cd "$(dirname "$0")"
if [ ! -d .deps/icontract ]; then
  PIP_NO_INDEX=1 /venv/bin/pip install --quiet --no-index --find-links /opt/veriftools/wheels \
      --target .deps icontract deal >/dev/null 2>&1 || {
    echo "setup: pip install of icontract/deal failed" >&2; exit 1; }
fi
mkdir -p evidence logs replays
PYTHONPATH=/repo:$PWD:$PWD/.deps /venv/bin/python -c "import icontract, deal; print('setup ok: icontract', icontract.__version__)"
