#!/usr/bin/env python3
"""Regenerate MANIFEST.json from the metadata declared in vh/checks/cNN.py (stdlib + numpy only at import)."""
import importlib, json, os, sys
HERE = os.path.dirname(os.path.dirname(os.path.abspath(__file__)))
sys.path.insert(0, HERE)
ids = [json.loads(l)["id"] for l in open(os.path.join(HERE, "properties.jsonl"))]
NA_REASONS = {}
na_path = os.path.join(HERE, "tools", "not_applicable.json")
if os.path.exists(na_path):
    NA_REASONS = json.load(open(na_path))
checks, na, served = [], [], []
for pid in ids:
    path = os.path.join(HERE, "vh", "checks", pid.lower() + ".py")
    if not os.path.exists(path) or pid in NA_REASONS:
        na.append({"property_id": pid, "reason": NA_REASONS.get(pid, "check not yet built in this session (planned: DESIGN.md section 5)")})
        continue
    mod = importlib.import_module("vh.checks." + pid.lower())
    served.append(pid)
    checks.append({
        "property_id": pid,
        "quick_cmd": "./check %s quick" % pid,
        "thorough_cmd": "./check %s thorough" % pid,
        "evidence_file": "/verif/evidence/%s.json" % pid,
        "replay_cmd_template": "./check %s --replay {path}" % pid,
        "engine": "vh",
        "level_claimed": {"category": mod.LEVEL, "text": mod.LEVEL_TEXT, "design_ref": "DESIGN.md section 5, " + pid},
        "level_note": getattr(mod, "LEVEL_NOTE", "trusted base: CPython, NumPy/SciPy/TensorFlow arithmetic, icontract, the reference models under vh/oracle (self-tested on textbook values); double precision, CPU, inputs drawn from the seeded generators"),
        "technique": mod.TECHNIQUE,
    })
man = {
    "version": 1,
    "setup_cmd": "./setup.sh",
    "hooks": {
        "guard": "TF_PWA_VERIF",
        "enable": "no source hook is needed: monitors are attached from the harness at import time (vh/attach.py) by rebinding public functions/classes of the tf_pwa imported from /repo's working tree (PYTHONPATH=/repo); ./check exports TF_PWA_VERIF=1 for any future guarded hook",
        "baseline_off_cmd": "cd /repo && /venv/bin/python -m pytest -ra -q -p no:cacheprovider --timeout=900 --continue-on-collection-errors",
        "source_commits": [],
        "add_only": True,
    },
    "engines": [{"name": "vh", "path": "/verif/vh", "serves_properties": served,
                 "kind_free_text": "runtime monitors (icontract contracts, wrappers on the real functions, history checkers, failpoints) + seeded hostile workload drivers + independent reference models; sharded subprocess runner"}],
    "checks": checks,
    "notes": "Runtime-monitoring family only. Exit 0 held / 1 violation / 2 inconclusive. Known genuine defects: known_findings.json. See DESIGN.md.",
    "not_applicable": na,
}
json.dump(man, open(os.path.join(HERE, "MANIFEST.json"), "w"), indent=1)
print("manifest: %d checks, %d not_applicable" % (len(checks), len(na)))
