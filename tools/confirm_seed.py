#!/usr/bin/env python3
"""Confirm a seeded change produced by a sub-agent, on scratch copies only (never /repo):
   1. the patch applies to /repo HEAD; 2. the repository's own suite still passes with it (98 baseline tests);
   3. the demonstration fails with the change and passes without it; 4. (optional) run checks against it via VH_REPO.
usage: /venv/bin/python tools/confirm_seed.py <dir with patch.diff, demo.py> [--skip-suite] [check ids...]
prints a JSON summary."""
import json
import os
import re
import shutil
import subprocess
import sys
import tempfile
import time

HERE = os.path.dirname(os.path.dirname(os.path.abspath(__file__)))


def sh(cmd, cwd=None, env=None, timeout=3000):
    p = subprocess.run(cmd, shell=True, cwd=cwd, env=env, capture_output=True, text=True, timeout=timeout)
    return p.returncode, p.stdout + p.stderr


def main():
    args = sys.argv[1:]
    src = os.path.abspath(args[0])
    skip_suite = "--skip-suite" in args
    checks = [a for a in args[1:] if not a.startswith("--")]
    out = {"seed_dir": src}
    clean = tempfile.mkdtemp(prefix="vhseed-clean-")
    mut = tempfile.mkdtemp(prefix="vhseed-mut-")
    try:
        for d in (clean, mut):
            sh("git -C /repo archive HEAD | tar -x -C %s" % d)
        rc, o = sh("git init -q . && git apply --whitespace=nowarn %s" % os.path.join(src, "patch.diff"), cwd=mut)
        out["patch_applies"] = rc == 0
        if rc != 0:
            out["patch_error"] = o[-500:]
            print(json.dumps(out, indent=1))
            return
        demo = os.path.join(src, "demo.py")
        txt = open(demo).read()
        for name, tree in (("with_change", mut), ("without_change", clean)):
            # demos were written against the agent's worktree path: run a copy whose hard-coded paths point at the scratch tree
            m = re.search(r"/tmp/wt\d?/C\d+", txt)
            t2 = txt.replace(m.group(0), tree) if m else txt
            dpath = os.path.join(tree, "_seed_demo.py")
            open(dpath, "w").write(t2)
            t0 = time.time()
            env = dict(os.environ, PYTHONPATH=tree, TF_CPP_MIN_LOG_LEVEL="3", MPLBACKEND="Agg", CUDA_VISIBLE_DEVICES="")
            try:
                rc, o = sh("/venv/bin/python %s" % dpath, cwd=tree, env=env, timeout=900)
            except subprocess.TimeoutExpired:
                rc, o = -9, "timeout"
            out["demo_" + name] = {"exit": rc, "wall_s": round(time.time() - t0), "tail": o[-400:]}
        if not skip_suite:
            t0 = time.time()
            rc, o = sh("/venv/bin/python -m pytest -q -p no:cacheprovider --timeout=900 --continue-on-collection-errors 2>&1 | tail -3", cwd=mut,
                       env=dict(os.environ, PYTHONPATH=mut), timeout=3000)
            m = re.search(r"(\d+) passed", o)
            out["suite_with_change"] = {"passed": int(m.group(1)) if m else None, "tail": o[-300:], "wall_s": round(time.time() - t0)}
        out["checks"] = {}
        for cid in checks:
            t0 = time.time()
            env = dict(os.environ, VH_REPO=mut, VH_OUT=os.path.join(mut, "_out"), VERIF_SEED=os.environ.get("VERIF_SEED", "0"))
            rc, o = sh("%s %s quick" % (os.path.join(HERE, "check"), cid), env=env, timeout=3000)
            mech = [l.strip() for l in o.splitlines() if "violation mechanism" in l][:4]
            out["checks"][cid] = {"exit": rc, "caught": rc == 1, "wall_s": round(time.time() - t0), "mechanisms": mech}
        print(json.dumps(out, indent=1))
    finally:
        shutil.rmtree(clean, ignore_errors=True)
        shutil.rmtree(mut, ignore_errors=True)


if __name__ == "__main__":
    main()
