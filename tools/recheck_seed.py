#!/usr/bin/env python3
"""Re-run only the check part of a seed confirmation (the patch, demonstration and repository suite were confirmed before) with the
CURRENT checks against a scratch export of /repo HEAD + patch; keeps the first result as 'checks_first_run'.
usage: tools/recheck_seed.py <seed dir> <confirm.json> <check ids...>"""
import json
import os
import shutil
import subprocess
import sys
import tempfile
import time

HERE = os.path.dirname(os.path.dirname(os.path.abspath(__file__)))


def main():
    src, cj = os.path.abspath(sys.argv[1]), sys.argv[2]
    checks = sys.argv[3:]
    conf = json.load(open(cj))
    if "checks_first_run" not in conf:
        conf["checks_first_run"] = conf.get("checks", {})
    mut = tempfile.mkdtemp(prefix="vhseed-re-")
    try:
        subprocess.run("git -C /repo archive HEAD | tar -x -C %s" % mut, shell=True, check=True)
        p = subprocess.run("git init -q . && git apply --whitespace=nowarn %s" % os.path.join(src, "patch.diff"), shell=True, cwd=mut, capture_output=True, text=True)
        conf["patch_applies_to_current_head"] = p.returncode == 0
        conf["checks"] = {}
        if p.returncode == 0:
            for cid in checks:
                t0 = time.time()
                env = dict(os.environ, VH_REPO=mut, VH_OUT=os.path.join(mut, "_out"), VERIF_SEED=os.environ.get("VERIF_SEED", "0"))
                r = subprocess.run("%s %s quick" % (os.path.join(HERE, "check"), cid), shell=True, env=env, capture_output=True, text=True, timeout=3600)
                o = r.stdout + r.stderr
                mech = [l.strip() for l in o.splitlines() if "violation mechanism" in l][:4]
                conf["checks"][cid] = {"exit": r.returncode, "caught": r.returncode == 1, "wall_s": round(time.time() - t0), "mechanisms": mech}
        json.dump(conf, open(cj, "w"), indent=1)
        print(os.path.basename(cj), conf.get("patch_applies_to_current_head"), {k: (v["exit"], v["mechanisms"][:1]) for k, v in conf["checks"].items()})
    finally:
        shutil.rmtree(mut, ignore_errors=True)


if __name__ == "__main__":
    main()
