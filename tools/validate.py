#!/usr/bin/env python3
"""Dev helper (python3-vt): validate MANIFEST.json and evidence/*.json against the schemas."""
import glob, json, sys
import jsonschema
ok = True
def val(path, schema):
    global ok
    try:
        jsonschema.validate(json.load(open(path)), json.load(open(schema)))
        print("valid  ", path)
    except Exception as e:
        ok = False
        print("INVALID", path, str(e)[:400])
val("/verif/MANIFEST.json", "/root/.vp/MANIFEST.schema.json")
for p in sorted(glob.glob("/verif/evidence/*.json")):
    val(p, "/root/.vp/EVIDENCE.schema.json")
man = json.load(open("/verif/MANIFEST.json"))
ids = [json.loads(l)["id"] for l in open("/verif/properties.jsonl")]
claimed = [c["property_id"] for c in man["checks"]]
na = [c["property_id"] for c in man.get("not_applicable", [])]
missing = [i for i in ids if i not in claimed and i not in na]
print("claimed", len(claimed), "not_applicable", len(na), "unaccounted", missing)
sys.exit(0 if ok and not missing else 1)
