#!/bin/bash
# usage: tools/run_seed.sh <seed_dir(with patch.diff)> <tier> <check ids...>
# applies the seeded change to /repo, runs the named checks, ALWAYS reverts /repo and restores evidence/.
set -u
cd "$(dirname "$0")/.."
SEED="$1"; TIER="$2"; shift 2
if ! git -C /repo diff --quiet; then echo "refusing: /repo has uncommitted changes"; exit 3; fi
cp -r evidence /tmp/evidence.bak.$$
git -C /repo apply "$SEED/patch.diff" || { echo "patch does not apply"; rm -rf /tmp/evidence.bak.$$; exit 3; }
trap 'git -C /repo checkout -- . ; rm -rf evidence; mv /tmp/evidence.bak.$$ evidence' EXIT
for id in "$@"; do
  start=$(date +%s)
  out=$(VERIF_SEED=${VERIF_SEED:-0} ./check "$id" "$TIER" 2>&1); rc=$?
  end=$(date +%s)
  mech=$(echo "$out" | grep "violation mechanism" | head -4 | tr '\n' ';')
  echo "RESULT seed=$(basename $SEED) check=$id tier=$TIER rc=$rc wall=$((end-start))s  $mech"
done
