#!/bin/bash
# usage: tools/try_seed.sh <dir with patch.diff> <check ids...>   - quick tier of the named checks against a scratch export of /repo HEAD with the patch applied
set -u
SEED=$(realpath "$1"); shift
HERE=$(cd "$(dirname "$0")/.." && pwd)
T=$(mktemp -d /tmp/vhtry-XXXXXX)
trap 'rm -rf "$T"' EXIT
git -C /repo archive HEAD | tar -x -C "$T"
(cd "$T" && git init -q . && git apply --whitespace=nowarn "$SEED/patch.diff") || { echo "patch does not apply"; exit 3; }
for id in "$@"; do
  out=$(VH_REPO="$T" VH_OUT="$T/_out" VERIF_SEED=${VERIF_SEED:-0} "$HERE/check" "$id" ${TIER:-quick} 2>&1); rc=$?
  echo "== $id rc=$rc"; echo "$out" | grep "violation mechanism\|INCONCLUSIVE\|HELD" | cut -c1-300 | head -8
done
