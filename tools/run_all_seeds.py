#!/usr/bin/env python3
"""Literal confirmation on /repo itself: for every kept seeded change (or those named on the command line)
   git -C /repo apply seeded/<name>/patch.diff ; ./check <property> quick ; git -C /repo checkout -- .
(through tools/run_seed.sh, which always reverts /repo and restores evidence/).  Results are appended to
seeded/run_against_repo.json.  Nothing else may use /repo while this runs.

usage: /venv/bin/python tools/run_all_seeds.py [--one-per-property] [names...]
"""
import json
import os
import re
import subprocess
import sys
import time

HERE = os.path.dirname(os.path.dirname(os.path.abspath(__file__)))


def main():
    args = sys.argv[1:]
    one = "--one-per-property" in args
    names = [a for a in args if not a.startswith("--")]
    out_path = os.path.join(HERE, "seeded", "run_against_repo.json")
    results = json.load(open(out_path)) if os.path.exists(out_path) else {}
    all_names = sorted(d for d in os.listdir(os.path.join(HERE, "seeded")) if os.path.exists(os.path.join(HERE, "seeded", d, "meta.json")))
    if names:
        todo = names
    else:
        todo = [n for n in all_names if n not in results]
    seen_props = {results[n]["property"] for n in results if results[n].get("rc") == 1}
    head = subprocess.check_output(["git", "-C", "/repo", "log", "--oneline", "-1"], text=True).split()[0]
    for name in todo:
        d = os.path.join(HERE, "seeded", name)
        meta = json.load(open(os.path.join(d, "meta.json")))
        prop = meta["property"]
        if one and prop in seen_props:
            continue
        if subprocess.run(["git", "-C", "/repo", "diff", "--quiet"]).returncode != 0:
            print("refusing: /repo has uncommitted changes")
            return 3
        chk = subprocess.run(["git", "-C", "/repo", "apply", "--check", os.path.join(d, "patch.diff")], capture_output=True, text=True)
        if chk.returncode != 0:
            results[name] = {"property": prop, "repo_head": head, "applies": False, "note": "patch was written against an earlier HEAD and touches code repaired since: " + chk.stderr.strip()[:200]}
            json.dump(results, open(out_path, "w"), indent=1)
            print(name, "does not apply at", head)
            continue
        t0 = time.time()
        p = subprocess.run([os.path.join(HERE, "tools", "run_seed.sh"), d, "quick", prop], capture_output=True, text=True, env=dict(os.environ, VH_TIMEOUT="2400"))
        line = [l for l in p.stdout.splitlines() if l.startswith("RESULT")]
        rc = None
        mech = ""
        if line:
            m = re.search(r"rc=(\d+)", line[0])
            rc = int(m.group(1)) if m else None
            mech = line[0].split("s  ", 1)[-1][:400]
        clean = subprocess.run(["git", "-C", "/repo", "diff", "--quiet"]).returncode == 0
        results[name] = {"property": prop, "repo_head": head, "applies": True, "check": prop, "rc": rc, "caught": rc == 1, "mechanisms": mech, "wall_s": round(time.time() - t0),
                         "repo_clean_afterwards": clean}
        json.dump(results, open(out_path, "w"), indent=1)
        print(name, prop, "rc", rc, mech[:120], flush=True)
        if rc == 1:
            seen_props.add(prop)
        if not clean:
            print("STOP: /repo not clean after", name)
            return 3
    return 0


if __name__ == "__main__":
    sys.exit(main())
