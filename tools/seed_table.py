#!/usr/bin/env python3
"""Markdown tables for DESIGN.md section 11.5 from seeded/*/meta.json and seeded/self_mutants.json."""
import glob
import json
import os

HERE = os.path.dirname(os.path.dirname(os.path.abspath(__file__)))


def main():
    print("| seeded change | property | what it changes | needs to manifest | caught by (quick tier) | not caught by | note |")
    print("|---|---|---|---|---|---|---|")
    for f in sorted(glob.glob(os.path.join(HERE, "seeded", "C*", "meta.json"))):
        m = json.load(open(f))
        name = os.path.basename(os.path.dirname(f))
        caught = [k for k, v in m["checks"].items() if v.get("caught")]
        missed = [k for k, v in m["checks"].items() if not v.get("caught")]
        note = ""
        if m.get("first_attempt"):
            note = "first missed; check strengthened"
        elif m.get("history"):
            note = "check strengthened" if "strengthened" in m["history"] or "added" in m["history"] else "see meta.json"
        first = m.get("checks_first_run") or {}
        own = first.get(m["property"])
        if own is not None and not own.get("caught"):
            others = [k for k, v in first.items() if v.get("caught")]
            note = "first missed%s; check strengthened" % ((" by %s (caught by %s)" % (m["property"], ", ".join(others))) if others else "")
        mech = "; ".join("%s: %s" % (k, (m["checks"][k]["mechanisms"][0].replace("violation mechanism ", "") if m["checks"][k]["mechanisms"] else "")) for k in caught)
        print("| %s | %s | %s | %s | %s | %s | %s |" % (name, m["property"], m["summary"].replace("|", "/"), m["needs_to_manifest"].replace("|", "/")[:220], mech.replace("|", "/"),
                                                       ", ".join(missed) or "-", note))
    print()
    print("| own break (section 7) | file | caught by | not caught by |")
    print("|---|---|---|---|")
    for r in json.load(open(os.path.join(HERE, "seeded", "self_mutants.json"))):
        if "checks" not in r:
            continue
        caught = [k for k, v in r["checks"].items() if v["caught"]]
        missed = [k for k, v in r["checks"].items() if not v["caught"]]
        print("| %s | %s | %s | %s |" % (r["name"], r["file"], ", ".join(caught) or "-", ", ".join(missed) or "-"))


if __name__ == "__main__":
    main()
