#!/usr/bin/env python3
"""Self-validation (DESIGN section 7): apply each listed break to a scratch copy of /repo (never /repo itself),
run the named checks against it through VH_REPO, report whether the break was caught, remove the copy.

usage: /venv/bin/python tools/self_mutants.py [name-substring ...]     results -> seeded/self_mutants.json
"""
import json
import os
import shutil
import subprocess
import sys
import tempfile
import time

HERE = os.path.dirname(os.path.dirname(os.path.abspath(__file__)))

# (name, file, old, new, checks expected to catch it)
M = [
    ("boost sign of gamma2*bp term", "tf_pwa/angle.py", "p_r += tf.expand_dims(gamma2 * bp, axis=-1) * pb", "p_r -= tf.expand_dims(gamma2 * bp, axis=-1) * pb", ["C11", "C01"]),
    ("angle_zx_z_getx x-axis from wrong cross product", "tf_pwa/angle.py", "u_x2 = Vector3.cross_unit(u_yr, u_z2)\n        return (EulerAngle(alpha, beta, gamma), u_x2)", "u_x2 = Vector3.cross_unit(u_z2, u_yr)\n        return (EulerAngle(alpha, beta, gamma), u_x2)", ["C01", "C11"]),
    ("small_d_weight sign exponent", "tf_pwa/dfun.py", "sign = (-1) ** ((k + m - n) // 2)", "sign = (-1) ** ((k + m + n) // 2)", ["C12", "C01"]),
    ("alignment drops inverse boost", "tf_pwa/cal_angle.py", "                                * SU2M.inv(b_matrix)\n", "                                * b_matrix\n", ["C02", "C01"]),
    ("cg factor (2l+1)/(2J+1) without sqrt", "tf_pwa/amp/core.py", "                        sqrt(2 * l + 1)\n                        / sqrt(2 * ja + 1)", "                        (2 * l + 1)\n                        / (2 * ja + 1)", ["C04", "C13"]),
    ("ls parity test inverted for half-integer s", "tf_pwa/particle.py", "                if l % 2 == dl:\n                    ret.append((l, s))", "                if (l % 2 == dl) != (s % 1.0 > 0.3 and l > 2):\n                    ret.append((l, s))", ["C13", "C19"]),
    ("spin range off by one", "tf_pwa/particle.py", "    while a <= b:\n        yield a", "    while a < b or (a == b and a < 3):\n        yield a", ["C13"]),
    ("euler alpha/gamma swapped", "tf_pwa/angle.py", "        alpha = alpha_p_gamma + alpha_m_gamma\n        gamma = alpha_p_gamma - alpha_m_gamma", "        gamma = alpha_p_gamma + alpha_m_gamma\n        alpha = alpha_p_gamma - alpha_m_gamma", ["C12", "C01", "C02"]),
    ("cg table swap sign", "tf_pwa/cg.py", "        if (j1 + j2 - j) % 2 == 1:", "        if (j1 + j2 + j) % 2 == 0 and j1 + j2 > 4:", ["C12"]),
    ("data split drops last event of a ragged batch", "tf_pwa/data.py", "            yield dat[i : min(i + batch_size, data_size)]", "            yield dat[i : min(i + batch_size, data_size - (1 if data_size % batch_size == 1 and data_size > 1000 else 0))]", ["C18", "C03", "C06"]),
    ("load_dat_file default order", "tf_pwa/data.py", "        order = (1, 0, 2)", "        order = (1, 0, 2) if n != 4 else (0, 1, 2)", ["C18"]),
    ("alpha = sum w^2 / sum w", "tf_pwa/model/model.py", "        alpha = sw / tf.reduce_sum(weight**2)\n        return -alpha * (", "        alpha = tf.reduce_sum(weight**2) / sw\n        return -alpha * (", ["C06"]),
    ("hessian drops sw*g_outer", "tf_pwa/model/model.py", "        h = -h_ln_data + sw * g_outer + sw * h_int_mc * self.int_g(int_mc)", "        h = -h_ln_data + sw * h_int_mc * self.int_g(int_mc)", ["C07", "C09"]),
    ("trans_f_grad_hess omits second-derivative term", "tf_pwa/variable.py", "                + np.diag(grad_yv * dydxs2),", "                + 0 * np.diag(grad_yv * dydxs2),", ["C07"]),
    ("phase space importance factor dropped", "tf_pwa/phasespace.py", "                w = w * (b - a) / (b - self.mass_range[i][0])", "                w = w * 1.0", ["C10"]),
    ("generate returns untruncated sample", "tf_pwa/phasespace.py", "            mass_f = [i[:n_iter] for i in mass_f]", "            mass_f = [i[: n_iter + (1 if n_iter == 37 else 0)] for i in mass_f]", ["C10"]),
    ("chain graph forgets an edge", "tf_pwa/particle.py", "        self.edges.append((node, d))\n        self.count += 1", "        if self.count < 4:\n            self.edges.append((node, d))\n        self.count += 1", ["C14"]),
    ("running width exponent 2L", "tf_pwa/breit_wigner.py", "    qq0 = tf.where(q0 > _epsilon, (q / q0) ** (2 * L + 1), 1.0)", "    qq0 = tf.where(q0 > _epsilon, (q / q0) ** (2 * L + (0 if L == 3 else 1)), 1.0)", ["C15", "C04"]),
    ("Bprime polynomial typo L=4", "tf_pwa/breit_wigner.py", "        4: [1.0, 10.0, 135.0, 1575.0, 11025.0],", "        4: [1.0, 10.0, 135.0, 1525.0, 11025.0],", ["C15", "C04"]),
    ("alias g0 -> mass", "tf_pwa/config_loader/decay_config.py", '            "g0": "width",', '            "g0": "mass",', ["C19"]),
    ("LinearInterp solve bin off by one", "tf_pwa/generator/linear_interpolation.py", "        bin_index = np.digitize(x, self.int_step[:-1])\n        k = self.k[bin_index]\n        b = self.b[bin_index]\n        x1 = self.x[1:][bin_index]\n        d = x - self.int_step[bin_index]",
     "        bin_index = np.digitize(x, self.int_step[:-1], right=True)\n        k = self.k[bin_index]\n        b = self.b[bin_index]\n        x1 = self.x[1:][bin_index]\n        d = x - self.int_step[bin_index]", ["C20"]),
    ("histogram error uses weights not squared", "tf_pwa/histogram.py", "            count2, _ = np.histogram(m, *args, weights=weights**2, **kwargs)\n            mask_count", "            count2, _ = np.histogram(m, *args, weights=np.abs(weights), **kwargs)\n            mask_count", ["C20"]),
    ("adaptive bins closed on both sides", "tf_pwa/adaptive_bins.py", "idx_data >= lb[..., np.newaxis], idx_data < rb[..., np.newaxis]", "idx_data >= lb[..., np.newaxis], idx_data <= rb[..., np.newaxis]", ["C20"]),
    ("set_same keeps both names trainable", "tf_pwa/variable.py", "                if name in self.trainable_vars:\n                    self.trainable_vars.remove(name)\n                else:", "                if name in self.trainable_vars and len(name_list) > 2:\n                    self.trainable_vars.remove(name)\n                else:", ["C16"]),
    ("rp2xy sin/cos swapped", "tf_pwa/variable.py", "        x = r * tf.cos(p)\n        y = r * tf.sin(p)", "        x = r * tf.sin(p)\n        y = r * tf.cos(p)", ["C16"]),
    ("temp_used_res restore removed", "tf_pwa/amp/core.py", "        try:\n            yield\n        finally:\n            self.chains_idx = old_idx", "        try:\n            yield\n        finally:\n            pass", ["C17"]),
    ("fit skips writing back the transformed variables", "tf_pwa/fit.py", "        fcn.vm.set_trans_var(s.x)  # make sure fit results same as variable", "        pass  # fcn.vm.set_trans_var(s.x)", ["C08"]),
    ("FF_ij missing -FF_j", "tf_pwa/fitfractions.py", "                    - fitFrac[\"{}\".format(res[i])]\n                    - fitFrac[\"{}\".format(res[j])]\n                )\n                gij = (", "                    - fitFrac[\"{}\".format(res[i])]\n                )\n                gij = (", ["C03"]),
    ("NumberError division error", "tf_pwa/err_num.py", "                    + (self._value * other._error / other._value) ** 2", "                    + (self._value * other._error) ** 2", ["C09"]),
    ("LinearInterp solve: flat-segment branch uses the wrong edge", "tf_pwa/generator/linear_interpolation.py", "        y2 = d + b * x1\n", "        y2 = d + b * self.x[:-1][bin_index]\n", ["C20"]),
    ("adaptive bins: 3-way split at quartiles", "tf_pwa/adaptive_bins.py", "            num_rb = np.percentile(data, j / n * 100, axis=0) + 1e-6", "            num_rb = np.percentile(data, (j / n if n != 3 else j / 4) * 100, axis=0) + 1e-6", ["C20"]),
    ("set_same does not share the variable with the last of >= 3 names", "tf_pwa/variable.py", "            for name in name_list:\n                self.variables[name] = var\n", "            for name in name_list[: max(2, len(name_list) - 1)]:\n                self.variables[name] = var\n", ["C16"]),
    ("cached_int ignores mc weights", "tf_pwa/experimental/opt_int.py", "    weight = tf.cast(weight, hij[index[0]].dtype)\n    n_lambda", "    weight = tf.ones_like(tf.cast(weight, hij[index[0]].dtype)) * tf.reduce_mean(tf.cast(weight, hij[index[0]].dtype))\n    n_lambda", ["C05", "C06"]),
]


def main():
    sel = sys.argv[1:]
    out_path = os.path.join(HERE, "seeded", "self_mutants.json")
    results = []
    if os.path.exists(out_path):
        results = json.load(open(out_path))
    done = {r["name"] for r in results}
    for name, path, old, new, checks in M:
        if sel and not any(s in name for s in sel):
            continue
        if not sel and name in done:
            continue
        tmp = tempfile.mkdtemp(prefix="vhmut-")
        try:
            subprocess.run("git -C /repo archive HEAD | tar -x -C %s" % tmp, shell=True, check=True)
            fp = os.path.join(tmp, path)
            src = open(fp).read()
            if src.count(old) != 1:
                results.append({"name": name, "status": "pattern not unique (%d)" % src.count(old)})
                print("SKIP", name, src.count(old))
                continue
            open(fp, "w").write(src.replace(old, new))
            rec = {"name": name, "file": path, "checks": {}}
            for cid in checks:
                t0 = time.time()
                env = dict(os.environ, VH_REPO=tmp, VH_OUT=os.path.join(tmp, "_out"), VERIF_SEED="0")
                p = subprocess.run([os.path.join(HERE, "check"), cid, "quick"], capture_output=True, text=True, env=env)
                mech = [l.strip() for l in p.stdout.splitlines() if "violation mechanism" in l][:3]
                rec["checks"][cid] = {"exit": p.returncode, "caught": p.returncode == 1, "wall_s": round(time.time() - t0), "mechanisms": mech}
                print(name, cid, "exit", p.returncode, mech[:1], flush=True)
            results = [r for r in results if r["name"] != name] + [rec]
            json.dump(results, open(out_path, "w"), indent=1)
        finally:
            shutil.rmtree(tmp, ignore_errors=True)


if __name__ == "__main__":
    main()
