#!/usr/bin/env python3
"""Store a confirmed seeded change under seeded/<id>/ : patch.diff, demo.py, notes.md (the sub-agent's own account) and
meta.json (property, what the change needs in order to manifest, what was run to confirm it and with which result).
usage: tools/keep_seed.py <Cxx> <agent dir with patch.diff/demo.py/notes.md> <confirm json> "<summary>" "<needs>" [dir name]
"""
import json
import os
import re
import shutil
import sys

HERE = os.path.dirname(os.path.dirname(os.path.abspath(__file__)))


def main():
    pid, src, cj, summary, needs = sys.argv[1:6]
    name = sys.argv[6] if len(sys.argv) > 6 else pid  # directory name (second-round changes: C01-2, ...)
    conf = json.load(open(cj))
    dst = os.path.join(HERE, "seeded", name)
    os.makedirs(dst, exist_ok=True)
    shutil.copy(os.path.join(src, "patch.diff"), os.path.join(dst, "patch.diff"))
    txt = open(os.path.join(src, "demo.py")).read()
    # the demonstration was written against the sub-agent's worktree; make it tree-agnostic (PYTHONPATH decides)
    txt = re.sub(r"/tmp/wt\d?/C\d+", "/repo", txt)
    open(os.path.join(dst, "demo.py"), "w").write(txt)
    if os.path.exists(os.path.join(src, "notes.md")):
        shutil.copy(os.path.join(src, "notes.md"), os.path.join(dst, "notes.md"))
    files = sorted(set(re.findall(r"^\+\+\+ b/(\S+)", open(os.path.join(dst, "patch.diff")).read(), re.M)))
    meta = {
        "property": pid,
        "summary": summary,
        "files_changed": files,
        "needs_to_manifest": needs,
        "origin": "fresh sub-agent given only the property text and its own scratch worktree of /repo",
        "confirmed": {
            "how": "tools/confirm_seed.py on two scratch exports of /repo HEAD (one with patch.diff applied): patch applies; "
                   "repository suite run with the change (baseline: 98 passed); demo.py run on both trees; the named checks' quick "
                   "tier run against the changed tree through VH_REPO",
            "patch_applies": conf.get("patch_applies"),
            "suite_passed_with_change": conf.get("suite_with_change", {}).get("passed"),
            "demo_exit_with_change": conf.get("demo_with_change", {}).get("exit"),
            "demo_exit_without_change": conf.get("demo_without_change", {}).get("exit"),
        },
        "checks": {k: {"caught": v["caught"], "exit": v["exit"], "mechanisms": v["mechanisms"]} for k, v in conf.get("checks", {}).items()},
        "checks_first_run": {k: {"caught": v.get("caught"), "exit": v.get("exit"), "mechanisms": v.get("mechanisms")} for k, v in conf.get("checks_first_run", {}).items()} or None,
        "run_against_repo": "git -C /repo apply /verif/seeded/%s/patch.diff && (cd /verif && ./check %s quick); git -C /repo checkout -- .   (tools/run_seed.sh does this and restores evidence/)" % (name, pid),
    }
    json.dump(meta, open(os.path.join(dst, "meta.json"), "w"), indent=1)
    print("kept", dst, json.dumps(meta["confirmed"]), {k: v["caught"] for k, v in meta["checks"].items()})


if __name__ == "__main__":
    main()
