#!/bin/bash
# dev helper: run python with the harness environment
HERE="$(cd "$(dirname "$0")" && pwd)"
export PYTHONPATH="/repo:$HERE:$HERE/.deps" PYTHONHASHSEED=0 TF_CPP_MIN_LOG_LEVEL=3 MPLBACKEND=Agg CUDA_VISIBLE_DEVICES="" PYTHONDONTWRITEBYTECODE=1
exec /venv/bin/python "$@"
