"""Contract installation on the real tf_pwa objects.

Contracts are attached from the harness by rebinding the attribute on the real class /
module, so every caller inside the library goes through them.  Conditions *record and
return True* (DESIGN 3.1): a raising contract would change the execution it observes;
the verdict is taken from the recorded events after the operation completes.
"""
import numpy as np


class PostBroken(Exception):
    pass


class InvariantBroken(Exception):
    pass


_installed = set()


def density_contract(ctx, monitor="contract: density finite and >= 0 (AbsPDF.__call__)"):
    """icontract postcondition on AbsPDF.__call__ (all amplitude-model classes inherit it)."""
    import icontract

    from tf_pwa.amp.amp import AbsPDF

    if "density" in _installed:
        return monitor
    _installed.add("density")

    def density_finite_nonneg(result):
        try:
            arr = np.asarray(result)
        except Exception:
            return True  # symbolic tensor inside a traced function: not observable here
        ok = bool(np.all(np.isfinite(arr)) and np.all(arr >= 0))
        ctx.check(monitor, ok, lambda: {"context": getattr(ctx, "context", None), "n": int(arr.size), "n_nan": int(np.sum(~np.isfinite(arr))), "min": float(np.nanmin(arr)) if arr.size else None},
                  mechanism="density not finite/non-negative")
        return True

    AbsPDF.__call__ = icontract.ensure(density_finite_nonneg, error=PostBroken)(AbsPDF.__call__)
    return monitor


def wrap_function(module, name, after):
    """Rebind module.name to a wrapper calling after(args, kwargs, result) -> None (record only)."""
    orig = getattr(module, name)

    def wrapper(*args, **kwargs):
        res = orig(*args, **kwargs)
        after(args, kwargs, res)
        return res

    wrapper.__wrapped__ = orig
    wrapper.__name__ = getattr(orig, "__name__", name)
    setattr(module, name, wrapper)
    return orig
