"""Monitor context shared by all checks: counters, case registry, violations, samples.

A shard process owns one Ctx; the parent merges the dumped shard results.
Verdicts are three-valued (held / violated / inconclusive) and are decided by the
parent from the merged counters (vh/runner.py).
"""
import hashlib
import json
import time
import traceback

import numpy as np

from .bootstrap import rng_for


def jsonable(x, depth=0):
    if depth > 8:
        return repr(x)[:200]
    if isinstance(x, dict):
        return {str(k): jsonable(v, depth + 1) for k, v in x.items()}
    if isinstance(x, (list, tuple, set, frozenset)):
        return [jsonable(v, depth + 1) for v in x]
    if isinstance(x, (str, bool)) or x is None:
        return x
    if isinstance(x, (int, np.integer)):
        return int(x)
    if isinstance(x, (float, np.floating)):
        v = float(x)
        if v != v or v in (float("inf"), float("-inf")):
            return repr(v)
        return v
    if isinstance(x, (complex, np.complexfloating)):
        return {"re": float(np.real(x)), "im": float(np.imag(x))}
    if isinstance(x, np.ndarray):
        if x.size > 64:
            return {"shape": list(x.shape), "head": jsonable(x.ravel()[:16].tolist(), depth + 1)}
        return jsonable(x.tolist(), depth + 1)
    if hasattr(x, "numpy"):
        try:
            return jsonable(x.numpy(), depth + 1)
        except Exception:
            pass
    return repr(x)[:300]


def digest(obj):
    return hashlib.sha1(json.dumps(jsonable(obj), sort_keys=True).encode()).hexdigest()[:16]


class Ctx:
    MAX_VIOL_STORED = 12

    def __init__(self, pid, tier, seed, shard=0, nshards=1, replay=None, budget_s=None):
        self.pid = pid
        self.tier = tier
        self.seed = int(seed)
        self.shard = shard
        self.nshards = nshards
        self.replay = replay  # dict(section=..., index=...) or None
        self.budget_s = budget_s
        self.t0 = time.time()
        self.monitors = {}  # monitor id -> evaluations
        self.counters = {}
        self.cases_all = 0
        self.case_hashes = set()  # distinct nontrivial
        self.cover = {}  # key -> set of values
        self.devs = {}  # key -> [max value, tol]
        self.samples = []
        self.violations = []  # stored witnesses
        self.viol_counts = {}  # mechanism -> count
        self.notes = []
        self.truncated = {}
        self._cur = None  # (section, index)
        self.context = None  # free-form description of the case in progress (for contract witnesses)

    # ---- case iteration -------------------------------------------------
    def quick(self):
        return self.tier == "quick"

    def pick(self, q, t):
        return q if self.tier == "quick" else t

    def elapsed(self):
        return time.time() - self.t0

    def cases(self, section, n, budget_s=None):
        """Yield (i, rng) for the case indices of `section` owned by this shard."""
        t_start = time.time()
        for i in range(n):
            if self.replay is not None:
                if self.replay.get("section") != section or int(self.replay.get("index", -1)) != i:
                    continue
            elif i % self.nshards != self.shard:
                continue
            if budget_s is not None and self.replay is None and time.time() - t_start > budget_s:
                self.truncated[section] = i
                break
            self._cur = (section, i)
            yield i, rng_for(self.seed, self.pid, section, i)
            self.checkpoint()
        self._cur = None

    def checkpoint(self, force=False):
        """Write what has been observed so far next to the final result (kept if the shard is killed by the watchdog or dies)."""
        path = getattr(self, "partial_path", None)
        if not path or (not force and time.time() - getattr(self, "_last_ckpt", 0.0) < 45.0):
            return
        self._last_ckpt = time.time()
        try:
            import json as _json
            import os as _os

            res = self.dump()
            res["status"] = "partial"
            res["error"] = None
            with open(path + ".tmp", "w") as f:
                _json.dump(res, f)
            _os.replace(path + ".tmp", path)
        except Exception:
            pass

    def section_active(self, section):
        """For sections that are not case loops (exhaustive tables)."""
        if self.replay is not None:
            return self.replay.get("section") == section
        return True

    def owns(self, k):
        """Deterministic work split for exhaustive enumerations."""
        if self.replay is not None:
            return True
        return k % self.nshards == self.shard

    # ---- recording -------------------------------------------------------
    def count(self, key, n=1):
        self.counters[key] = self.counters.get(key, 0) + n

    def covered(self, key, value):
        self.cover.setdefault(key, set()).add(str(value))

    def case(self, desc, nontrivial=True):
        self.cases_all += 1
        if nontrivial:
            self.case_hashes.add(digest(desc))

    def sample(self, obj, limit=4):
        if len(self.samples) < limit:
            self.samples.append(jsonable(obj))

    def dev(self, key, value, tol=None, where=None):
        value = float(value)
        cur = self.devs.get(key)
        if cur is None or value > cur[0] or cur[0] != cur[0]:
            self.devs[key] = [value, tol if tol is None else float(tol), jsonable(where if where is not None else self._cur)]

    def note(self, text):
        if len(self.notes) < 50:
            self.notes.append(str(text)[:500])

    def check(self, monitor, ok, witness=None, mechanism=None):
        """One oracle evaluation of `monitor`. `witness` may be a callable (lazy)."""
        self.monitors[monitor] = self.monitors.get(monitor, 0) + 1
        if ok:
            return True
        self.violation(monitor, witness, mechanism, counted=True)
        return False

    def violation(self, monitor, witness=None, mechanism=None, counted=False):
        if not counted:
            self.monitors[monitor] = self.monitors.get(monitor, 0) + 1
        mech = mechanism or monitor
        self.viol_counts[mech] = self.viol_counts.get(mech, 0) + 1
        stored = sum(1 for v in self.violations if v["mechanism"] == mech)
        if stored < self.MAX_VIOL_STORED:
            if callable(witness):
                try:
                    witness = witness()
                except Exception as e:  # pragma: no cover
                    witness = {"witness_error": repr(e)}
            sec, idx = self._cur if self._cur else (None, None)
            self.violations.append(
                {
                    "monitor": monitor,
                    "mechanism": mech,
                    "section": sec,
                    "index": idx,
                    "shard": self.shard,
                    "witness": jsonable(witness),
                }
            )

    def close(self, a, b, rtol, atol=0.0):
        a = np.asarray(a)
        b = np.asarray(b)
        if a.shape != b.shape:
            return False, float("inf")
        if a.size == 0:
            return True, 0.0
        d = np.abs(a - b)
        lim = atol + rtol * np.maximum(np.abs(a), np.abs(b))
        if not np.all(np.isfinite(d)):
            return False, float("inf")
        worst = float(np.max(d / np.where(lim > 0, lim, 1e-300)))
        return bool(np.all(d <= lim)), worst

    def exc_witness(self, e, **extra):
        w = {"exception": repr(e)[:400], "traceback": traceback.format_exc()[-2500:]}
        w.update(extra)
        return w

    # ---- dump ---------------------------------------------------------
    def dump(self):
        return {
            "shard": self.shard,
            "monitors": self.monitors,
            "counters": self.counters,
            "cases_all": self.cases_all,
            "case_hashes": sorted(self.case_hashes),
            "cover": {k: sorted(v) for k, v in self.cover.items()},
            "devs": self.devs,
            "samples": self.samples,
            "violations": self.violations,
            "viol_counts": self.viol_counts,
            "notes": self.notes,
            "truncated": self.truncated,
            "wall_s": self.elapsed(),
        }
