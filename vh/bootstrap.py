"""Process bootstrap for every shard: environment, numpy shim, seeding, faulthandler.

Must be imported (and `init()` called) before anything imports tf_pwa.
"""
import faulthandler
import os
import random
import sys
import warnings

_DONE = False


def init(seed=0, threads=None):
    global _DONE
    os.environ.setdefault("TF_CPP_MIN_LOG_LEVEL", "3")
    os.environ.setdefault("MPLBACKEND", "Agg")
    os.environ.setdefault("CUDA_VISIBLE_DEVICES", "")
    if threads:
        os.environ["OMP_NUM_THREADS"] = str(threads)
        os.environ["TF_NUM_INTRAOP_THREADS"] = str(threads)
        os.environ["TF_NUM_INTEROP_THREADS"] = str(threads)
    if _DONE:
        return
    _DONE = True
    faulthandler.enable(file=sys.stderr, all_threads=True)
    warnings.filterwarnings("ignore")
    import numpy

    # Pinned-environment drift (DESIGN §2): tf_pwa/fit_improve.py evaluates np.Inf at
    # import, which NumPy >= 2 removed.  Shim in *our* process only; not a repo change.
    if not hasattr(numpy, "Inf"):
        numpy.Inf = numpy.inf
    random.seed(seed)
    numpy.random.seed(seed % (2**32))
    import logging

    logging.getLogger("tensorflow").setLevel(logging.ERROR)
    import tensorflow as tf

    tf.get_logger().setLevel("ERROR")
    if threads:
        try:
            tf.config.threading.set_intra_op_parallelism_threads(threads)
            tf.config.threading.set_inter_op_parallelism_threads(threads)
        except RuntimeError:
            pass
    tf.random.set_seed(seed)
    # silence the library's chatty prints of "Using Model_new" etc. is left to callers


def rng_for(*key):
    import numpy as np

    ints = []
    for k in key:
        if isinstance(k, str):
            import zlib

            ints.append(zlib.crc32(k.encode()))
        else:
            ints.append(int(k))
    return np.random.default_rng(np.random.SeedSequence(ints))
