"""Entry point: ./check <ID> [quick|thorough] [--replay path]

Parent: spawns shard subprocesses (subprocess + timeout, never multiprocessing.Pool),
merges their dumps, matches violations against known_findings.json, writes
evidence/<ID>.json and replays, prints the verdict line, returns the exit code.
Child (--shard): bootstraps, runs vh.checks.<id>.run(ctx), dumps JSON.
"""
import importlib
import json
import os
import shutil
import subprocess
import sys
import tempfile
import time

HERE = os.path.dirname(os.path.dirname(os.path.abspath(__file__)))
OUT = os.environ.get("VH_OUT") or HERE


def load_module(pid):
    return importlib.import_module("vh.checks." + pid.lower())


def child_main(argv):
    # argv: pid tier seed shard nshards outfile [replayfile]
    pid, tier, seed, shard, nshards, out = argv[:6]
    replay = None
    if len(argv) > 6:
        with open(argv[6]) as f:
            replay = json.load(f)
    from . import bootstrap

    mod = load_module(pid)
    bootstrap.init(int(seed), threads=getattr(mod, "THREADS", {}).get(tier))
    from .monitor import Ctx

    ctx = Ctx(pid, tier, int(seed), int(shard), int(nshards), replay=replay)
    ctx.partial_path = out + ".partial"
    status = "ok"
    err = None
    try:
        mod.run(ctx)
    except BaseException as e:  # harness/library crash outside any monitor
        import traceback

        status = "crash"
        err = repr(e)[:500] + "\n" + traceback.format_exc()[-3000:]
    res = ctx.dump()
    res["status"] = status
    res["error"] = err
    with open(out, "w") as f:
        json.dump(res, f)
    return 0


def load_known(pid):
    path = os.path.join(HERE, "known_findings.json")
    if not os.path.exists(path):
        return []
    with open(path) as f:
        data = json.load(f)
    return [e for e in data.get("entries", []) if e.get("property") == pid]


def parent_main(argv):
    pid = argv[0].upper()
    tier = os.environ.get("VERIF_TIER") or "quick"
    replay_path = None
    rest = argv[1:]
    while rest:
        a = rest.pop(0)
        if a in ("quick", "thorough"):
            tier = a
        elif a == "--replay":
            replay_path = os.path.abspath(rest.pop(0))
    seed = int(os.environ.get("VERIF_SEED", "0") or 0)
    mod = load_module(pid)
    t0 = time.time()
    if replay_path:
        with open(replay_path) as f:
            rp = json.load(f)
        tier = rp.get("tier", tier)
        seed = int(rp.get("seed", seed))
        nshards = 1
    else:
        nshards = int(os.environ.get("VERIF_SHARDS") or mod.SHARDS.get(tier, 1))
    timeout = int(os.environ.get("VH_TIMEOUT") or mod.TIMEOUT.get(tier, 600))  # VH_TIMEOUT: watchdog override for a loaded machine
    work = tempfile.mkdtemp(prefix="vh-%s-" % pid)
    procs = []
    try:
        for s in range(nshards):
            cwd = os.path.join(work, "s%d" % s)
            os.makedirs(cwd)
            out = os.path.join(cwd, "result.json")
            cmd = [sys.executable, "-m", "vh.runner", "--shard", pid, tier, str(seed), str(s), str(nshards), out]
            if replay_path:
                cmd.append(replay_path)
            log = open(os.path.join(cwd, "log.txt"), "w")
            # temporary files of the shard (autograph sources, scratch files) live in its own directory, removed with it
            p = subprocess.Popen(cmd, cwd=cwd, stdout=log, stderr=subprocess.STDOUT, env=dict(os.environ, TMPDIR=cwd))
            procs.append((p, out, log, cwd))
        results = []
        problems = []
        deadline = t0 + timeout
        for s, (p, out, log, cwd) in enumerate(procs):
            try:
                p.wait(timeout=max(1.0, deadline - time.time()))
            except subprocess.TimeoutExpired:
                p.kill()
                p.wait()
                problems.append("shard %d watchdog timeout after %ds" % (s, timeout))
            log.close()
            if os.path.exists(out):
                with open(out) as f:
                    r = json.load(f)
                results.append(r)
                if r.get("status") != "ok":
                    problems.append("shard %d crashed: %s" % (s, (r.get("error") or "")[-1500:]))
            else:
                tail = ""
                try:
                    with open(os.path.join(cwd, "log.txt")) as f:
                        txt = f.read()
                    # a fatal error (faulthandler): keep the Python stack that follows the first "Fatal Python error", not the module list at the end
                    k = txt.find("Fatal Python error")
                    tail = txt[k:k + 2500] if k >= 0 else txt[-1500:]
                except Exception:
                    pass
                kept = ""
                if os.path.exists(out + ".partial"):
                    # the shard died or was killed: what it had observed until its last checkpoint still counts (violations included);
                    # the run as a whole stays inconclusive because the shard did not finish
                    try:
                        with open(out + ".partial") as f:
                            r = json.load(f)
                        r["status"] = "ok"
                        results.append(r)
                        kept = " (observations up to its last checkpoint kept: %d monitor evaluations)" % sum(r.get("monitors", {}).values())
                    except Exception:
                        pass
                problems.append("shard %d produced no final result (rc=%s)%s: %s" % (s, p.returncode, kept, tail))
        return finish(pid, tier, seed, mod, results, problems, time.time() - t0, replay_path)
    finally:
        for p, *_ in procs:
            if p.poll() is None:
                p.kill()
        shutil.rmtree(work, ignore_errors=True)


def merge(results):
    m = {
        "monitors": {},
        "counters": {},
        "cases_all": 0,
        "case_hashes": set(),
        "cover": {},
        "devs": {},
        "samples": [],
        "violations": [],
        "viol_counts": {},
        "notes": [],
        "truncated": {},
    }
    for r in results:
        for k, v in r["monitors"].items():
            m["monitors"][k] = m["monitors"].get(k, 0) + v
        for k, v in r["counters"].items():
            m["counters"][k] = m["counters"].get(k, 0) + v
        m["cases_all"] += r["cases_all"]
        m["case_hashes"].update(r["case_hashes"])
        for k, v in r["cover"].items():
            m["cover"].setdefault(k, set()).update(v)
        for k, rec in r["devs"].items():
            cur = m["devs"].get(k)
            if cur is None or rec[0] > cur[0]:
                m["devs"][k] = rec
        for smp in r["samples"]:
            key = json.dumps(smp, sort_keys=True)
            if key not in m.setdefault("_sample_keys", set()) and len(m["samples"]) < 8:
                m["_sample_keys"].add(key)
                m["samples"].append(smp)
        m["violations"].extend(r["violations"])
        for k, v in r["viol_counts"].items():
            m["viol_counts"][k] = m["viol_counts"].get(k, 0) + v
        m["notes"].extend(r["notes"])
        m["truncated"].update({"%s@s%d" % (k, r["shard"]): v for k, v in r["truncated"].items()})
    return m


def finish(pid, tier, seed, mod, results, problems, wall, replay_path):
    m = merge(results)
    known = load_known(pid)
    finding_mechs = {e["mechanism"]: e for e in known if e.get("status") == "finding"}
    new_viol = {k: v for k, v in m["viol_counts"].items() if k not in finding_mechs}
    known_hit = {k: v for k, v in m["viol_counts"].items() if k in finding_mechs}

    # requirement evaluation (inconclusive rules)
    inconclusive = list(problems)
    req = getattr(mod, "REQUIRE", {})
    if not replay_path:
        for mon, minimum in req.get("monitors", {}).items():
            mn = minimum.get(tier, 1) if isinstance(minimum, dict) else minimum
            if m["monitors"].get(mon, 0) < mn:
                inconclusive.append("monitor %s evaluated %d < %d times" % (mon, m["monitors"].get(mon, 0), mn))
        mn = req.get("min_nontrivial", 2)
        mn = mn.get(tier, 2) if isinstance(mn, dict) else mn
        if len(m["case_hashes"]) < mn:
            inconclusive.append("only %d distinct non-trivial cases (< %d)" % (len(m["case_hashes"]), mn))
        for key, wanted in req.get("cover", {}).items():
            w = wanted.get(tier, []) if isinstance(wanted, dict) else wanted
            missing = [x for x in w if str(x) not in m["cover"].get(key, set())]
            if missing:
                inconclusive.append("coverage class %s missing %s" % (key, missing))

    os.makedirs(os.path.join(OUT, "replays"), exist_ok=True)
    os.makedirs(os.path.join(OUT, "evidence"), exist_ok=True)
    replay_files = {}
    n = 0
    if not replay_path:
        import glob

        for old in glob.glob(os.path.join(OUT, "replays", "%s-%d-*.json" % (pid, seed))):
            os.remove(old)
    for v in m["violations"]:
        mech = v["mechanism"]
        if mech in replay_files:
            continue
        path = os.path.join("replays", "%s-%d-%d.json" % (pid, seed, n))
        n += 1
        with open(os.path.join(OUT, path), "w") as f:
            json.dump(
                {
                    "property": pid,
                    "tier": tier,
                    "seed": seed,
                    "section": v["section"],
                    "index": v["index"],
                    "monitor": v["monitor"],
                    "mechanism": mech,
                    "witness": v["witness"],
                    "count_this_run": m["viol_counts"].get(mech, 1),
                },
                f,
                indent=1,
            )
        replay_files[mech] = path

    evaluations = sum(m["monitors"].values())
    verdict = "held"
    if new_viol:
        verdict = "violated"
    elif inconclusive:
        verdict = "inconclusive"

    if not replay_path:
        ev = {
            "property_id": pid,
            "tier": tier,
            "seed": seed,
            "level": mod.LEVEL,
            "coverage": {
                "evaluations": int(evaluations),
                "distinct_nontrivial": len(m["case_hashes"]),
                "rule": mod.RULE,
                "samples": m["samples"][:6] or ["(no case sampled)"],
                "cases_generated": m["cases_all"],
                "monitor_evaluations": m["monitors"],
                "counters": m["counters"],
                "classes_covered": {k: sorted(v) for k, v in m["cover"].items()},
                "max_deviation_vs_tolerance": {k: {"max": v[0], "tol": v[1], "at": v[2] if len(v) > 2 else None} for k, v in m["devs"].items()},
                "truncated_by_time": m["truncated"],
                "shards": len(results),
                "notes": m["notes"][:20],
            },
            "assumptions": getattr(mod, "ASSUMPTIONS", []),
            "wall_s": round(wall, 2),
            "violations": int(sum(new_viol.values())),
            "verdict": verdict,
            "known_findings_observed": {k: v for k, v in known_hit.items()},
            "inconclusive_reasons": inconclusive,
        }
        if getattr(mod, "EXHAUSTIVE_PART", None):
            ev["coverage"]["exhaustive_part"] = mod.EXHAUSTIVE_PART
        with open(os.path.join(OUT, "evidence", pid + ".json"), "w") as f:
            json.dump(ev, f, indent=1, sort_keys=False)

    print("[%s %s seed=%d] monitors=%d evaluations, %d distinct non-trivial cases, wall %.1fs" % (
        pid, tier, seed, evaluations, len(m["case_hashes"]), wall))
    for k, v in sorted(m["monitors"].items()):
        print("   monitor %-40s %d" % (k, v))
    for mech, cnt in known_hit.items():
        print("KNOWN-FINDING: property=%s %s (observed %d times; %s)" % (
            pid, finding_mechs[mech].get("what", mech), cnt, mech))
    if new_viol:
        for mech, cnt in new_viol.items():
            print("  violation mechanism %s x%d" % (mech, cnt))
            for v in m["violations"]:
                if v["mechanism"] == mech:
                    print("    witness:", json.dumps(v["witness"])[:1200])
                    break
        for r_ in inconclusive:
            print("  (also) problem: %s" % r_.replace("\n", " | ")[:600])
        for mech in new_viol:
            print("VIOLATION property=%s replay=%s" % (pid, replay_files.get(mech, "replays/none")))
        return 1
    if inconclusive:
        for r in inconclusive:
            print("INCONCLUSIVE property=%s reason=%s" % (pid, r.replace("\n", " | ")[:1500]))
        return 2
    print("HELD property=%s (on what was observed)" % pid)
    return 0


def main():
    argv = sys.argv[1:]
    if not argv:
        print(__doc__)
        return 2
    if argv[0] == "--shard":
        return child_main(argv[1:])
    return parent_main(argv)


if __name__ == "__main__":
    sys.exit(main())
