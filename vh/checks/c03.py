"""C03 - amplitudes superpose linearly; fit fractions obey the sum rule."""
import itertools

import numpy as np

from ..gen import cards
from .c01 import MODELS

LEVEL = "exploration"
SHARDS = {"quick": 12, "thorough": 16}
TIMEOUT = {"quick": 600, "thorough": 3000}
THREADS = {"quick": 1, "thorough": 1}
RULE = (
    "per case: one generated card (3- or 4-body, 2-5 chains, spins incl. 1/2) x parameters by name x 30-60 weighted "
    "integration events: (a) amplitude tensor of random chain subsets/complements/full set vs the sum of single-chain tensors, "
    "(b) scaling one chain's coupling by a complex number, (c) set_used_res selection vs the reference chain set, (d) fit "
    "fractions (applications.fit_fractions old/new, ConfigLoader.cal_fitfractions) vs reference partial sums, the sum rule, and "
    "batch sizes {1, 7, n-1, n, n+3, 25000}.  non-trivial = >=2 interfering chains with |interference fraction|>1e-3; "
    "distinct = card structure key."
)
RULE += '  Also: the empty selection (no chain / no resonance) as the empty partial sum; a share of the cards with other registered decay models.'
ASSUMPTIONS = [
    "the sum rule is judged only when the listed resonances partition the active chains (every chain contains exactly one listed resonance)",
    "the single-chain amplitude tensors themselves are the library's (their correctness is C01-C05); the reference recombines them independently",
    "tolerances: tensors 1e-10 of max|A|; fractions 1e-9",
]
REQUIRE = {
    "monitors": {
        "A(S)==sum A(i)": 50,
        "chain amplitude proportional to its coupling": 30,
        "set_used_res selects reference chains": 30,
        "FF_i==reference partial sums": 30,
        "sum rule: sum FF_i + sum FF_ij == 1": 20,
        "FF independent of batch size": 30,
    },
    "min_nontrivial": {"quick": 30, "thorough": 300},
}
LEVEL_TEXT = ("Runtime monitors on DecayGroup.get_amp3 / set_used_chains / set_used_res and on fit_fractions / cal_fitfractions: partial "
              "sums, proportionality and the fit-fraction sum rule are recomputed independently from single-chain tensors on every "
              "generated card, for dividing and non-dividing batch sizes.")
TECHNIQUE = "metamorphic/differential runtime monitor (partial sums, coupling scaling, batch sizes) on the real amplitude and fit-fraction code"


def run(ctx):
    import contextlib
    import io

    from .. import attach

    attach.density_contract(ctx)
    from tf_pwa.applications import fit_fractions

    n_cards = ctx.pick(48, 1500)
    for i, rng in ctx.cases("cards", n_cards, budget_s=ctx.pick(420, 2500)):
        tag = "_c03s%di%d" % (ctx.seed, i)
        nb = 3 if i % 3 else 4
        try:
            g = cards.CardGen(rng, tag, nbody=nb, n_chains=(2, 3), res_per_slot=(1, 2) if nb == 3 else (1, 1),
                              final_j2=(0, 0, 1, 2), models=MODELS,
                              decay_models=("helicity_full", "helicity_parity", "gls-bf") if i % 4 == 2 else None)
            card = g.make()
            ctx.covered("decay_models", "default only" if i % 4 != 2 else "helicity_full / helicity_parity / gls-bf on some vertices")
            cfg = cards.load(card)
            amp = cfg.get_amplitude()
            amp.set_params(cards.random_params(amp, (ctx.seed, i)))
        except Exception as e:
            ctx.count("card_failed")
            ctx.note("card failed %r" % (e,))
            continue
        meta = card["meta"]
        dg = amp.decay_group
        nch = len(dg.chains)
        nev = int(rng.choice([30, 37, 60]))
        ps = cards.events(card, nev, rng, classes=False)
        with contextlib.redirect_stdout(io.StringIO()):
            data = cfg.data.cal_angle([np.ascontiguousarray(p) for p in ps])
        w = rng.uniform(0.2, 2.0, nev)
        data["weight"] = w
        ctx.context = {"card": cards.short(card), "index": i}
        desc = lambda: {"card": cards.short(card), "config": card["config"], "param_key": [ctx.seed, i]}
        full = list(range(nch))

        def tensor(sel):
            dg.set_used_chains(list(sel))
            try:
                return np.asarray(dg.get_amp3(data))
            finally:
                dg.set_used_chains(full)

        try:
            singles = [tensor([k]) for k in range(nch)]
        except Exception as e:
            ctx.violation("A(S)==sum A(i)", ctx.exc_witness(e, **desc()), mechanism="single-chain amplitude raises")
            continue
        scale = max(np.max(np.abs(s)) for s in singles) + 1e-300
        # (a) partial sums
        subsets = [full]
        for _ in range(4):
            k = int(rng.integers(1, nch + 1))
            s = sorted(rng.choice(nch, size=k, replace=False).tolist())
            subsets.append(s)
            comp = [x for x in full if x not in s]
            if comp:
                subsets.append(comp)
        subsets.append(list(reversed(full)))  # order must not matter
        for s in subsets:
            try:
                got = tensor(s)
            except Exception as e:
                ctx.violation("A(S)==sum A(i)", ctx.exc_witness(e, subset=s, **desc()), mechanism="subset amplitude raises")
                continue
            want = sum(singles[k] for k in s)
            dev = np.max(np.abs(got - want)) / scale if got.shape == want.shape else np.inf
            ctx.dev("A(S) vs sum", dev, 1e-10)
            ctx.check("A(S)==sum A(i)", dev < 1e-10, lambda: dict(desc(), subset=s, dev=dev), mechanism="partial sum")
        # the empty selection (no chain / no resonance selected) is the empty partial sum: amplitude and density vanish
        try:
            got0 = tensor([])
            amp.set_used_res([])
            idx0 = list(dg.chains_idx)
            try:
                dens0 = np.asarray(amp(data))
            finally:
                dg.set_used_chains(full)
            ok0 = float(np.max(np.abs(got0))) == 0.0 and idx0 == [] and float(np.max(np.abs(dens0))) == 0.0
            ctx.check("A(S)==sum A(i)", ok0, lambda: dict(desc(), subset=[], max_abs_amplitude=float(np.max(np.abs(got0))), chains_after_set_used_res_empty=idx0,
                                                          max_density=float(np.max(np.abs(dens0)))), mechanism="partial sum (empty selection)")
        except Exception as e:
            dg.set_used_chains(full)
            ctx.violation("A(S)==sum A(i)", ctx.exc_witness(e, subset=[], **desc()), mechanism="empty selection raises")
        # density of the full model equals sum over helicities of |sum_i A_i|^2
        dens = np.asarray(amp(data))
        want_d = np.sum(np.abs(sum(singles)) ** 2, axis=tuple(range(1, singles[0].ndim)))
        dd = np.max(np.abs(dens - want_d) / (np.abs(want_d) + 1e-3 * np.median(want_d)))
        ctx.check("A(S)==sum A(i)", dd < 1e-9, lambda: dict(desc(), dev=dd), mechanism="density == |sum A_i|^2")
        # (b) proportionality to the chain coupling
        k = int(rng.integers(nch))
        tot = dg.chains[k].total
        params0 = amp.get_params()
        base = [nm for nm in params0 if nm.endswith("total_0r") and nm[:-1] + "i" in params0 and str(tot.name) in nm]
        lam = complex(rng.uniform(0.3, 2.0) * np.exp(1j * rng.uniform(-np.pi, np.pi)))
        if len(base) == 1:
            nm = base[0]
            newp = dict(params0)
            newp[nm] = params0[nm] * abs(lam)
            newp[nm[:-1] + "i"] = params0[nm[:-1] + "i"] + np.angle(lam)
            amp.set_params(newp)
            try:
                after = [tensor([j]) for j in range(nch)]
            finally:
                amp.set_params(params0)
            # chains sharing the same `total` variable do not exist in generated cards; all others must be unchanged
            dev_k = np.max(np.abs(after[k] - lam * singles[k])) / scale
            dev_o = max([np.max(np.abs(after[j] - singles[j])) / scale for j in range(nch) if j != k] + [0.0])
            ctx.dev("coupling scaling", max(dev_k, dev_o), 1e-10)
            ctx.check("chain amplitude proportional to its coupling", dev_k < 1e-10 and dev_o < 1e-10,
                      lambda: dict(desc(), chain=k, lam=[lam.real, lam.imag], dev_scaled=dev_k, dev_others=dev_o), mechanism="coupling proportionality")
        else:
            ctx.count("skipped_total_name_not_unique")
        # (c) set_used_res
        res_names = [str(r) for r in dg.resonances]
        for _ in range(3):
            kk = int(rng.integers(1, len(res_names) + 1))
            sel = [res_names[x] for x in rng.choice(len(res_names), size=kk, replace=False)]
            want = sorted(j for j, c in enumerate(dg.chains) if any(str(p) in sel for p in c.inner))
            amp.set_used_res(sel)
            got = sorted(dg.chains_idx)
            dg.set_used_chains(full)
            ctx.check("set_used_res selects reference chains", got == want, lambda: dict(desc(), res=sel, lib=got, ref=want), mechanism="set_used_res")
        # (d) fit fractions.  choose a resonance list that partitions the chains (3-body: all resonances; 4-body: one per chain)
        if nb == 3:
            res_list = list(res_names)
        else:
            res_list = []
            for c in dg.chains:
                cand = [str(p) for p in c.inner if sum(1 for c2 in dg.chains if p in c2.inner) == 1]
                if not cand:
                    res_list = None
                    break
                res_list.append(cand[0])
        partition = res_list is not None and all(sum(1 for r in res_list if any(str(p) == r for p in c.inner)) == 1 for c in dg.chains)
        if not partition:
            ctx.count("skipped_sum_rule_not_partition")
            res_list = list(res_names)
        # reference from single-chain tensors
        def integ(sel_chains):
            a = sum(singles[j] for j in sel_chains)
            return float(np.sum(w * np.sum(np.abs(a) ** 2, axis=tuple(range(1, a.ndim)))))

        chains_of = {r: [j for j, c in enumerate(dg.chains) if any(str(p) == r for p in c.inner)] for r in res_list}
        tot_int = integ(full)
        ref_ff = {}
        for a_i, ra in enumerate(res_list):
            ref_ff[ra] = integ(chains_of[ra]) / tot_int
        for a_i, ra in enumerate(res_list):
            for rb in res_list[:a_i]:
                both = sorted(set(chains_of[ra]) | set(chains_of[rb]))
                ref_ff[(ra, rb)] = integ(both) / tot_int - ref_ff[ra] - ref_ff[rb]
        interf = max([abs(v) for k_, v in ref_ff.items() if isinstance(k_, tuple)] + [0.0])
        ctx.case(cards.card_digest_key(card), nontrivial=nch >= 2 and interf > 1e-3)
        ctx.covered("nbody", nb)
        batches = [7, nev, nev + 3, 25000] + ([nev - 1] if i % 2 else []) + ([1] if (nev <= 30 and i % 2 == 0) else [])
        if ctx.tier == "thorough":
            batches = [7, nev - 1, nev, nev + 3, 25000] + ([1] if nev <= 37 else [])
        results = {}
        for method in ("old", "new"):
            for b in batches:
                if method == "new" and ctx.tier == "quick" and b not in (7, nev, nev - 1):
                    continue
                try:
                    with contextlib.redirect_stdout(io.StringIO()):
                        r = fit_fractions(amp, data, None, {}, b, res_list, method=method)
                        if method == "old":
                            ff = r[0]
                        else:
                            ff, _ = r.get_frac(error_matrix=None, sum_diag=False)
                    results[(method, b)] = {k_: float(v) for k_, v in ff.items()}
                except Exception as e:
                    ctx.violation("FF_i==reference partial sums", ctx.exc_witness(e, method=method, batch=b, res=res_list, **desc()),
                                  mechanism="fit_fractions raises (%s)" % method)
        # ConfigLoader.cal_fitfractions
        try:
            with contextlib.redirect_stdout(io.StringIO()):
                r = cfg.cal_fitfractions(mcdata=data, res=res_list, batch=11)
            results[("ConfigLoader.cal_fitfractions", 11)] = {k_: float(v) for k_, v in r[0].items()}
        except Exception as e:
            ctx.violation("FF_i==reference partial sums", ctx.exc_witness(e, res=res_list, **desc()), mechanism="cal_fitfractions raises")
        chains_after = sorted(dg.chains_idx)
        for key, ff in results.items():
            dev = 0.0
            missing = [k_ for k_ in ref_ff if k_ not in ff]
            for k_, v in ref_ff.items():
                if k_ in ff:
                    dev = max(dev, abs(ff[k_] - v))
            ctx.dev("FF vs reference", dev, 1e-9)
            ctx.check("FF_i==reference partial sums", not missing and dev < 1e-9,
                      lambda: dict(desc(), call=key, res=res_list, lib={str(k_): v for k_, v in ff.items()}, ref={str(k_): v for k_, v in ref_ff.items()}, dev=dev),
                      mechanism="fit fraction value")
            if partition:
                total = sum(ff.get(k_, 0.0) for k_ in ref_ff)
                ctx.dev("sum rule", abs(total - 1), 1e-9)
                ctx.check("sum rule: sum FF_i + sum FF_ij == 1", abs(total - 1) < 1e-9, lambda: dict(desc(), call=key, total=total), mechanism="sum rule")
        for method in ("old", "new"):
            vals = [results[(method, b)] for b in batches if (method, b) in results]
            if len(vals) >= 2:
                dev = max(abs(v[k_] - vals[0][k_]) for v in vals for k_ in vals[0])
                ctx.dev("FF batch dependence", dev, 1e-9)
                ctx.check("FF independent of batch size", dev < 1e-9, lambda: dict(desc(), method=method, batches=batches, dev=dev), mechanism="batch dependence")
        if i < ctx.nshards:
            ctx.sample({"card": cards.short(card), "n_events": nev, "res_list": res_list, "ref_fractions": {str(k_): v for k_, v in ref_ff.items()},
                        "batches": batches}, limit=2)
