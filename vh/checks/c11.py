"""C11 - kinematic transformations are mutually inverse."""
import math

import numpy as np

from ..oracle import kin

LEVEL = "exploration"
SHARDS = {"quick": 8, "thorough": 16}
TIMEOUT = {"quick": 400, "thorough": 2400}
RULE = (
    "per case: 64 random four-vectors (time-like, light-like, at rest, collinear with the velocity) x one velocity with "
    "|v| in {1e-8,0.1,0.7,0.99,0.999}; every decay-chain shape with 3,4,5 final particles (3+15+105 topologies, random "
    "daughter order) x random masses inside the allowed ranges, cos(theta) in (-1,1), phi in (-pi,pi); Dalitz points inside "
    "the kinematic boundary. non-trivial = |v|>1e-3 for vectors, every shape for round trips; distinct = case index + shape."
)
RULE += '  Also: the round trip with the chain inside a decay group of several topologies (shared sub-decays).'
ASSUMPTIONS = [
    "round-trip tolerance 1e-8 on squared masses (relative to M_top^2; a massless particle's m=sqrt(E^2-p^2) carries only half the digits), cos(theta) and phi (phi modulo 2pi, weighted by sin(theta)); masses are kept 2% of the window away from the thresholds where angles are ill-conditioned",
    "boost round trip tolerance 1e-9*E*gamma^2 (cancellation in gamma)",
]
REQUIRE = {
    "monitors": {
        "boost(v) then boost(-v) is identity": 50,
        "boost == independent numpy boost": 50,
        "boost preserves M and Dot": 50,
        "boost_matrix agrees with boost": 50,
        "rest_vector(p,p)==(m,0,0,0)": 50,
        "helicity build->cal_angle->find_variable roundtrip": 100,
        "built momenta reproduce input masses": 100,
        "Dalitz.generate_p reproduces variables": 50,
    },
    "cover": {"n_finals_roundtrip": [3, 4, 5]},
    "min_nontrivial": 200,
}
LEVEL_TEXT = ("Identity contracts evaluated on the real LorentzVector / HelicityAngle / Dalitz functions over generated vectors, "
              "velocities up to 0.999c and every decay-chain shape with 3-5 final particles, cross-checked with an independent NumPy boost.")
TECHNIQUE = "round-trip / identity runtime monitors + differential check vs independent NumPy kinematics"


def run(ctx):
    import tensorflow as tf

    from tf_pwa.angle import LorentzVector as lv
    from tf_pwa.data_trans.dalitz import Dalitz
    from tf_pwa.data_trans.helicity_angle import HelicityAngle

    T = lambda x: tf.constant(np.asarray(x, dtype=np.float64))

    # ------------------------------------------------------------ Lorentz vectors
    n_l = ctx.pick(400, 8000)
    for i, rng in ctx.cases("lorentz", n_l):
        n = 64
        m = rng.choice([0.0, 1e-3, 0.139, 1.0, 5.0], size=n)
        p3 = rng.normal(size=(n, 3)) * rng.choice([0.0, 1e-6, 0.3, 3.0, 30.0], size=(n, 1))
        speed = float(rng.choice([1e-8, 0.1, 0.7, 0.99, 0.999]))
        v = kin.random_velocity(rng, speeds=(speed,))
        p3[:8] = np.outer(rng.uniform(-3, 3, 8), v / np.linalg.norm(v))  # collinear with the boost
        p = np.concatenate([np.sqrt(m * m + np.sum(p3 * p3, axis=-1))[:, None], p3], axis=-1)
        x = np.concatenate([rng.uniform(0.5, 4, (n, 1)), rng.normal(size=(n, 3))], axis=-1)  # arbitrary (also space-like)
        g = 1 / math.sqrt(1 - v @ v)
        vv = np.broadcast_to(v, (n, 3))
        b = lv.boost(T(p), T(vv)).numpy()
        back = lv.boost(T(b), T(-vv)).numpy()
        scale = np.maximum(p[:, :1], 1e-3) * g * g
        d = np.max(np.abs(back - p) / scale)
        ctx.dev("boost roundtrip/(E gamma^2)", d, 1e-9)
        ctx.check("boost(v) then boost(-v) is identity", d < 1e-9, lambda: {"v": v, "dev": d}, mechanism="boost roundtrip")
        ref = kin.boost(p, v)
        d2 = np.max(np.abs(b - ref) / (np.maximum(p[:, :1], 1e-3) * g))
        ctx.dev("boost vs numpy/(E gamma)", d2, 1e-11)
        ctx.check("boost == independent numpy boost", d2 < 1e-11, lambda: {"v": v, "dev": d2, "p": p[0], "lib": b[0], "ref": ref[0]},
                  mechanism="boost value")
        # invariants under boosts and rotations
        bx = lv.boost(T(x), T(vv)).numpy()
        R = kin.random_rotation(rng)
        rp, rx = kin.rotate(p, R), kin.rotate(x, R)
        dots = [
            (lv.Dot(T(b), T(bx)).numpy(), kin.mdot(p, x), g * g),
            (lv.M2(T(b)).numpy(), kin.mass2(p), g * g),
            (lv.Dot(T(rp), T(rx)).numpy(), kin.mdot(p, x), 1.0),
            (lv.M2(T(rp)).numpy(), lv.M2(T(p)).numpy(), 1.0),
            (lv.Dot(T(p), T(x)).numpy(), kin.mdot(p, x), 1.0),
        ]
        sc = np.maximum(np.abs(p[:, 0] * x[:, 0]), 1e-3)
        d3 = max(np.max(np.abs(a_ - b_) / (sc * f_)) for a_, b_, f_ in dots)
        ctx.dev("invariants", d3, 1e-10)
        ctx.check("boost preserves M and Dot", d3 < 1e-10, lambda: {"v": v, "dev": d3}, mechanism="invariants")
        mm = lv.M(T(b)).numpy()
        mref = np.sqrt(np.abs(kin.mass2(p)))
        d3b = np.max(np.abs(mm * mm - mref * mref) / (np.maximum(p[:, 0] ** 2, 1e-6) * g * g))
        ctx.check("boost preserves M and Dot", d3b < 1e-10, lambda: {"v": v, "dev": d3b}, mechanism="invariant mass M")
        # boost matrix: for massive p only
        msk = m > 0
        if np.any(msk):
            pm = p[msk]
            bm = lv.boost_matrix(T(pm)).numpy()
            beta = pm[:, 1:] / pm[:, :1]
            xm = x[msk]
            via_matrix = np.einsum("nij,nj->ni", bm, xm)
            via_boost = lv.boost(T(xm), T(beta)).numpy()
            gam = pm[:, 0] / m[msk]
            ok_rows = gam < 1e4
            if np.any(ok_rows):
                d4 = np.max(np.abs(via_matrix - via_boost)[ok_rows] / (np.abs(xm[:, :1]) * gam[:, None] + 1e-3)[ok_rows])
                ctx.dev("boost_matrix", d4, 1e-10)
                ctx.check("boost_matrix agrees with boost", d4 < 1e-10, lambda: {"dev": d4}, mechanism="boost_matrix")
                sym = np.max(np.abs(bm - np.transpose(bm, (0, 2, 1)))[ok_rows])
                ctx.check("boost_matrix agrees with boost", sym < 1e-12 * np.max(gam[ok_rows]), lambda: {"asym": sym}, mechanism="boost_matrix symmetry")
            # rest_vector
            rest = lv.rest_vector(T(pm), T(pm)).numpy()
            want = np.zeros_like(pm)
            want[:, 0] = m[msk]
            d5 = np.max(np.abs(rest - want)[ok_rows] / (pm[:, :1] * gam[:, None])[ok_rows]) if np.any(ok_rows) else 0.0
            ctx.dev("rest_vector(p,p)", d5, 1e-10)
            ctx.check("rest_vector(p,p)==(m,0,0,0)", d5 < 1e-10, lambda: {"dev": d5}, mechanism="rest_vector self")
            rest_x = lv.rest_vector(T(pm), T(xm)).numpy()
            ref_x = kin.boost_to_rest_of(xm, pm)
            d6 = np.max(np.abs(rest_x - ref_x)[ok_rows] / (np.abs(xm[:, :1]) * gam[:, None] + 1e-3)[ok_rows]) if np.any(ok_rows) else 0.0
            ctx.check("rest_vector(p,p)==(m,0,0,0)", d6 < 1e-10, lambda: {"dev": d6}, mechanism="rest_vector other")
        ctx.case(("lor", i, speed), nontrivial=speed > 1e-3)
        ctx.covered("speed", speed)
        if i < 2:
            ctx.sample({"section": "lorentz", "v": v, "p0": p[10], "boosted": b[10], "back": back[10]})

    # ------------------------------------------------------------ helicity-angle round trips
    from tf_pwa.amp import DecayChain as AmpChain
    from tf_pwa.amp import get_decay, get_particle
    from tf_pwa.particle import BaseParticle
    from tf_pwa.particle import DecayChain as BaseChain

    shapes = {}
    for n in (3, 4, 5):
        top = BaseParticle("T")
        finals = [BaseParticle("f%d" % k) for k in range(n)]
        shapes[n] = [[(repr(d.core), [repr(o) for o in d.outs]) for d in c] for c in BaseChain.from_particles(top, finals)]
    all_shapes = [(n, k) for n in (3, 4, 5) for k in range(len(shapes[n]))]

    n_h = ctx.pick(len(all_shapes) * 2, len(all_shapes) * 30)
    for i, rng in ctx.cases("helicity_roundtrip", n_h):
        n, k = all_shapes[i % len(all_shapes)]
        shape = shapes[n][k]
        tag = "_%d_%d" % (ctx.seed, i)
        parts = {}

        def P(name):
            if name not in parts:
                parts[name] = get_particle(name + tag, J=0, P=-1)
            return parts[name]

        decs = []
        for core, outs in shape:
            o = list(outs)
            if rng.random() < 0.5:
                o = o[::-1]
            decs.append(get_decay(P(core), [P(x) for x in o]))
        # random order of the decay list (the chain must not depend on it)
        decs = [decs[j] for j in rng.permutation(len(decs))]
        chain = AmpChain(decs)
        nev = 16
        fin_m = {P("f%d" % j): float(rng.choice([0.0, 0.139, 0.494, 0.938])) if rng.random() < 0.7 else float(rng.uniform(0.05, 1.0))
                 for j in range(n)}
        # assign masses top-down: top mass, then every inner node inside its window with 2% margins
        children = {P(c): [P(x) for x in o] for c, o in shape}
        minm = {}

        def min_mass(x):
            if x not in children:
                minm[x] = fin_m[x]
            else:
                minm[x] = sum(min_mass(y) for y in children[x])
            return minm[x]

        topP = P("T")
        min_mass(topP)
        ms = {topP: np.full(nev, minm[topP] + float(rng.uniform(0.5, 4.0)))}

        def assign(x):
            if x not in children:
                ms[x] = np.full(nev, fin_m[x])
                return
            a, b_ = children[x]
            avail = ms[x] - minm[a] - minm[b_]
            u = rng.uniform(0.02, 0.98, nev)
            w = rng.uniform(0.02, 0.98, nev)
            # split the available Q between the two daughters' windows and the breakup momentum
            qa = avail * u * (w if a in children else 0.0)
            qb = avail * u * ((1 - w) if b_ in children else 0.0)
            if a in children and b_ in children:
                pass
            ms_a = minm[a] + qa
            ms_b = minm[b_] + qb
            ms[a], ms[b_] = ms_a, ms_b
            for y in (a, b_):
                if y in children:
                    assign_inner(y)
                else:
                    ms[y] = np.full(nev, fin_m[y])

        def assign_inner(x):
            a, b_ = children[x]
            avail = ms[x] - minm[a] - minm[b_]
            u = rng.uniform(0.02, 0.98, nev)
            w = rng.uniform(0.02, 0.98, nev)
            qa = avail * u * (w if a in children else 0.0)
            qb = avail * u * ((1 - w) if b_ in children else 0.0)
            ms[a], ms[b_] = minm[a] + qa, minm[b_] + qb
            for y in (a, b_):
                if y in children:
                    assign_inner(y)
                else:
                    ms[y] = np.full(nev, fin_m[y])

        assign_inner(topP)
        cos_in = [rng.uniform(-0.999, 0.999, nev) for _ in decs]
        phi_in = [rng.uniform(-math.pi, math.pi, nev) for _ in decs]
        cos_in[0][0], cos_in[-1][1] = 0.999999, -0.999999
        desc = {"n_finals": n, "shape": [(c, o) for c, o in shape], "masses_ev0": {repr(k_): float(v_[0]) for k_, v_ in ms.items()}}
        ha = HelicityAngle(chain)
        try:
            p4 = ha.build_data({k_: T(v_) for k_, v_ in ms.items()}, [T(c) for c in cos_in], [T(f) for f in phi_in])
            dat = ha.cal_angle(p4)
            ms2, cos2, phi2 = ha.find_variable(dat)
        except Exception as e:
            ctx.violation("helicity build->cal_angle->find_variable roundtrip", ctx.exc_witness(e, **desc), mechanism="helicity roundtrip raises")
            continue
        # (a) built momenta reproduce the input masses; total is the parent at rest
        okm = set(repr(x) for x in p4) == set(repr(x) for x in fin_m)
        tot = sum(np.asarray(v_) for v_ in p4.values())
        dm = 0.0
        for f, v_ in p4.items():
            dm = max(dm, np.max(np.abs(kin.mass2(np.asarray(v_)) - ms[f] ** 2)) / ms[topP][0] ** 2)

        def sub_p(x):
            return np.asarray(p4[x]) if x not in children else sum(sub_p(y) for y in children[x])

        for x in children:
            dm = max(dm, np.max(np.abs(kin.mass2(sub_p(x)) - ms[x] ** 2)) / ms[topP][0] ** 2)
        dm = max(dm, np.max(np.abs(tot[:, 1:])) / ms[topP][0], np.max(np.abs(tot[:, 0] - ms[topP])) / ms[topP][0])
        # m^2 of a massless or light particle built inside a fast sub-system is E^2 - p^2 of numbers ~gamma*m_parent: 1.3e-10 was observed once
        # in 14000 thorough cases (two massless daughters of a light node); realistic breaks are >= 1e-2
        ctx.dev("built masses", dm, 1e-9)
        ctx.check("built momenta reproduce input masses", okm and dm < 1e-9, lambda: dict(desc, dev=dm), mechanism="build_data masses")
        # (b) round trip.  The angles are measured in rest frames reached by boosts whose Lorentz factor is E/m of the
        # intermediate state; the rounding of 1-beta^2 and of p-beta*E costs eps*gamma^2, so the tolerance is per event
        # 1e-8 + 256*eps*gamma^2 with gamma the largest lab-frame E/m over the intermediate states of that event.
        gam = np.ones(nev)
        for x in children:
            if x is not topP:
                px = sub_p(x)
                gam = np.maximum(gam, px[:, 0] / np.maximum(ms[x], 1e-300))
        tol_e = 1e-8 + 256 * np.finfo(float).eps * gam ** 2
        ctx.dev("roundtrip max gamma (observed, not judged)", float(np.max(gam)))
        worst = 0.0
        names_ok = set(repr(x) for x in ms2) == set(repr(x) for x in ms)
        for k_, v_ in ms2.items():
            worst = max(worst, np.max(np.abs(np.asarray(v_) ** 2 - ms[k_] ** 2) / ms[topP] ** 2 / tol_e))  # on m^2: sqrt halves the digits at m=0
        dcos = max(np.max(np.abs(np.asarray(c2) - c1) / tol_e) for c1, c2 in zip(cos_in, cos2))
        dphi = 0.0
        for c1, f1, f2 in zip(cos_in, phi_in, phi2):
            dd = np.abs(np.angle(np.exp(1j * (np.asarray(f2) - f1))))
            dphi = max(dphi, np.max(dd * np.sqrt(1 - c1 * c1) / tol_e))
        ctx.dev("roundtrip masses / tol", worst, 1.0)
        ctx.dev("roundtrip cos / tol", dcos, 1.0)
        ctx.dev("roundtrip phi*sin / tol", dphi, 1.0)
        ctx.check("helicity build->cal_angle->find_variable roundtrip", names_ok and worst < 1 and dcos < 1 and dphi < 1,
                  lambda: dict(desc, mass_dev_over_tol=worst, cos_dev_over_tol=dcos, phi_dev_over_tol=dphi, names_ok=names_ok, max_gamma=float(np.max(gam))),
                  mechanism="helicity roundtrip")
        # (c) the same extraction when the chain is one of several topologies of a decay group (as in a multi-chain configuration):
        # sub-decays such as (f0, f1) -> f0 f1 are then shared by topologies with different ancestry
        if n >= 4:
            try:
                from tf_pwa.cal_angle import DecayGroup as _DG
                from tf_pwa.cal_angle import cal_angle_from_momentum as _cafm

                pick = [int(j_) for j_ in rng.choice(len(shapes[n]), size=min(5, len(shapes[n])), replace=False) if int(j_) != k][:4]
                group = [AmpChain([get_decay(P(core), [P(x) for x in outs]) for core, outs in shapes[n][j_]]) for j_ in pick]
                pos = int(rng.integers(0, len(group) + 1))
                group.insert(pos, chain)
                dat_g = _cafm(p4, _DG(group))
                ms3, cos3, phi3 = ha.find_variable(dat_g)
                worst3 = max(np.max(np.abs(np.asarray(v_) ** 2 - ms[k_] ** 2) / ms[topP] ** 2 / tol_e) for k_, v_ in ms3.items())
                dcos3 = max(np.max(np.abs(np.asarray(c2) - c1) / tol_e) for c1, c2 in zip(cos_in, cos3))
                dphi3 = max(np.max(np.abs(np.angle(np.exp(1j * (np.asarray(f2) - f1)))) * np.sqrt(1 - c1 * c1) / tol_e) for c1, f1, f2 in zip(cos_in, phi_in, phi3))
                ctx.check("helicity build->cal_angle->find_variable roundtrip", worst3 < 1 and dcos3 < 1 and dphi3 < 1,
                          lambda: dict(desc, group_size=len(group), position_in_group=pos, other_topologies=[shapes[n][j_] for j_ in pick],
                                       mass_dev_over_tol=worst3, cos_dev_over_tol=dcos3, phi_dev_over_tol=dphi3),
                          mechanism="helicity roundtrip (chain inside a group of several topologies)")
                ctx.covered("roundtrip_in_group_position", "first" if pos == 0 else "later")
            except Exception as e:
                ctx.violation("helicity build->cal_angle->find_variable roundtrip", ctx.exc_witness(e, **desc), mechanism="helicity roundtrip raises (group of several topologies)")
        ctx.case(("hel", n, k, i), nontrivial=True)
        ctx.covered("n_finals_roundtrip", n)
        ctx.covered("shape_%d" % n, k)
        if i < 2:
            ctx.sample(dict(desc, section="helicity_roundtrip", cos_in=[float(c[2]) for c in cos_in], cos_out=[float(np.asarray(c)[2]) for c in cos2],
                            phi_in=[float(c[2]) for c in phi_in], phi_out=[float(np.asarray(c)[2]) for c in phi2]))

    # ------------------------------------------------------------ Dalitz
    n_d = ctx.pick(200, 4000)
    for i, rng in ctx.cases("dalitz", n_d):
        mi = [float(rng.choice([0.0, 0.139, 0.494, 0.938, rng.uniform(0.05, 1.5)])) for _ in range(3)]
        m0 = sum(mi) + float(rng.choice([0.05, 0.5, 2.0, 5.0]))
        nev = 64
        # points inside: draw from independent generator
        ps = kin.gen_nbody(m0, mi, nev, rng, classes=False)
        s12 = kin.mass2(ps[0] + ps[1])
        s23 = kin.mass2(ps[1] + ps[2])
        try:
            q1, q2, q3 = Dalitz(m0, *mi).generate_p(T(s12), T(s23))
        except Exception as e:
            ctx.violation("Dalitz.generate_p reproduces variables", ctx.exc_witness(e, m0=m0, mi=mi), mechanism="Dalitz raises")
            continue
        q1, q2, q3 = (np.asarray(q) for q in (q1, q2, q3))
        # interior events only: the boundary (Kibble function -> 0) makes p_y ill-conditioned
        s13 = m0 * m0 + sum(x * x for x in mi) - s12 - s23
        py2 = np.abs(q2[:, 2]) / m0
        # ... and particle 1 (almost) at rest makes p_b a 0/0 expression (observed: 1e-4 relative at |p1|/m0=2e-5)
        good = (py2 > 1e-4) & (np.linalg.norm(ps[0][:, 1:], axis=-1) / m0 > 1e-3)
        if good.sum() < 4:
            ctx.count("dalitz_skipped_boundary")
            continue
        sc = m0 * m0
        devs = [
            np.abs(kin.mass2(q1) - mi[0] ** 2), np.abs(kin.mass2(q2) - mi[1] ** 2), np.abs(kin.mass2(q3) - mi[2] ** 2),
            np.abs(kin.mass2(q1 + q2) - s12), np.abs(kin.mass2(q2 + q3) - s23), np.abs(kin.mass2(q1 + q3) - s13),
            np.abs((q1 + q2 + q3)[:, 0] - m0) * m0, np.max(np.abs((q1 + q2 + q3)[:, 1:]), axis=-1) * m0,
        ]
        d = max(np.max(x[good]) for x in devs) / sc
        ctx.dev("dalitz", d, 1e-8)
        ctx.check("Dalitz.generate_p reproduces variables", d < 1e-8 and np.all(np.isfinite(q2[good])),
                  lambda: {"m0": m0, "mi": mi, "dev": d, "s12": s12[good][0], "s23": s23[good][0]}, mechanism="Dalitz.generate_p")
        ctx.case(("dal", i), nontrivial=True)
        if i < 1:
            ctx.sample({"section": "dalitz", "m0": m0, "mi": mi, "s12": s12[0], "s23": s23[0], "p1": q1[0], "p2": q2[0], "p3": q3[0]})
