"""C20 - samplers, histograms and adaptive bins reproduce their targets."""
import math

import numpy as np

from ..gen import cards
from ..oracle import kin
from .c10 import CaseTimeout, Stat, chi2_p, time_limit

LEVEL = "exploration"
SHARDS = {"quick": 10, "thorough": 16}
TIMEOUT = {"quick": 600, "thorough": 3000}
THREADS = {"quick": 2, "thorough": 2}
RULE = (
    "toy generation: generated cards (incl. a narrow resonance that forces the bound to grow) x N in {1,7,1000,2345,...}: "
    "exact count, physical momenta, every accepted weight <= the bound of its rejection round (wrapper on single_sampling2), "
    "chi2 of the toy sample vs density-weighted phase space in Dalitz cells; inverse-transform samplers: random monotone grids "
    "with zero/flat/steep segments (LinearInterp), random (m0,Gamma,window) (BWGenerator), random uniform and non-uniform "
    "1-3 dim grids (InterpND/InterpNDHist); adaptive bins: continuous and duplicate-rich data, 1-3 dimensions, random bin "
    "layouts; histograms: random weights incl. negative and zero.  non-trivial = grid with a zero/flat segment or >=2 dims or "
    "weighted; distinct = case index + layout."
)
RULE += '  Also: ARGenerator with a user-supplied bound (too low / right / too high / none; Python and NumPy scalars); single-precision MeV-scale data for the adaptive bins.'
ASSUMPTIONS = [
    "statistical statements at per-test alpha = 1e-8/(tests in the shard)",
    "a rejection round that accepts no event is skipped by the weight monitor (the library cannot evaluate an amplitude on 0 events)",
    "adaptive bins: population clause judged on tie-free data only; partition clause on arbitrary data",
]
REQUIRE = {
    "monitors": {"toy: exactly N events": 6, "toy: accepted weight <= bound of its round": 6, "toy: sample follows the model density": 2,
                 "LinearInterp: integral(solve(u)) == u*total": 50, "LinearInterp: __call__ == numpy.interp": 50,
                 "BWGenerator: CDF inversion": 30, "InterpND: __call__ == RegularGridInterpolator": 20, "InterpND: sample follows the interpolant": 4,
                 "AdaptiveBound: every event in exactly one bin": 30, "AdaptiveBound: near-equal populations": 20,
                 "Hist1D: sum of weights / squared weights conserved": 50},
    "min_nontrivial": 80,
}
LEVEL_TEXT = ("Runtime contracts on the real rejection sampler (wrapper around single_sampling2 observing every round), on the inverse-CDF "
              "samplers, adaptive binning and histogram classes, with goodness-of-fit monitors at a fixed negligible false-alarm probability.")
TECHNIQUE = "runtime contracts on the sampler rounds + identity monitors + statistical goodness-of-fit monitors"


def run(ctx):
    import contextlib
    import io

    import tensorflow as tf

    tf.random.set_seed(ctx.seed * 77 + ctx.shard)
    np.random.seed(ctx.seed * 77 + ctx.shard)
    stat = Stat()

    # ------------------------------------------------------------ toy generation
    import tf_pwa.generator.generator as gg

    orig_ss2 = gg.single_sampling2
    rounds = {"n": 0, "empty": 0}

    def observed_single_sampling2(phsp, amp, N, max_weight=None, importance_f=None):
        data, bound = orig_ss2(phsp, amp, N, max_weight, importance_f)
        rounds["n"] += 1
        try:
            from tf_pwa.data import data_shape

            if data_shape(data) == 0:
                rounds["empty"] += 1
                return data, bound
            w = np.asarray(amp(data))
            if importance_f is not None:
                w = w / np.asarray(importance_f(data))
            ctx.check("toy: accepted weight <= bound of its round", bool(np.max(w) <= float(bound) * (1 + 1e-12)),
                      lambda: {"max_accepted_weight": float(np.max(w)), "bound": float(bound), "n_accepted": int(w.size), "context": ctx.context},
                      mechanism="accepted weight above its bound")
        except Exception as e:  # never disturb the observed code
            ctx.count("weight_monitor_error:" + type(e).__name__)
        return data, bound

    gg.single_sampling2 = observed_single_sampling2

    n_t = ctx.pick(10, 120)
    import time as _time
    for i, rng in ctx.cases("toys", n_t, budget_s=ctx.pick(300, 1800)):
        tag = "_c20s%di%d" % (ctx.seed, i)
        try:
            card = cards.CardGen(rng, tag, nbody=3, n_chains=(1, 3), final_j2=(0, 0, 1), res_j2_int=(0, 2, 4), res_j2_half=(1, 3), decay_opts_prob=0.0,
                                 models=("default",)).make()
        except RuntimeError:
            continue
        if i % 2 == 0:  # narrow resonance: the first rounds underestimate the maximum
            r0 = card["meta"]["resonances"][0]
            card["config"]["particle"][r0["name"]]["width"] = 0.05
        ctx.context = {"card": cards.short(card), "index": i}
        _t_case = _time.time()
        try:
            with contextlib.redirect_stdout(io.StringIO()), time_limit(ctx.pick(90, 400)):
                cfg = cards.load(card)
                amp = cfg.get_amplitude()
                amp.set_params(cards.random_params(amp, (ctx.seed, i)))
                fm = {f["name"]: f["mass"] for f in card["meta"]["finals"]}
                M0 = card["meta"]["top"]["mass"]
                for N in (1, 7, int(rng.choice([1000, 2345])) if ctx.tier == 'thorough' else 600):
                    from tf_pwa.data import data_shape

                    toy = cfg.generate_toy(N, max_N=int(rng.choice([2000, 20000])))
                    ctx.check("toy: exactly N events", data_shape(toy) == N, lambda: {"requested": N, "got": int(data_shape(toy)), "card": cards.short(card)},
                              mechanism="generate_toy count")
                    p = cfg.generate_toy_p(N, max_N=int(rng.choice([1500, 20000])))
                    arrs = {str(k): np.asarray(v) for k, v in p.items()}
                    okc = all(a.shape == (N, 4) for a in arrs.values()) and set(arrs) == set(fm)
                    ctx.check("toy: exactly N events", okc, lambda: {"requested": N, "shapes": {k: v.shape for k, v in arrs.items()}}, mechanism="generate_toy_p count")
                    if okc:
                        tot = sum(arrs.values())
                        phys = all(np.max(np.abs(kin.mass2(arrs[k]) - fm[k] ** 2)) <= 1e-10 * M0**2 for k in fm) and np.max(np.abs(tot[:, 1:])) <= 1e-10 * M0 \
                            and np.max(np.abs(tot[:, 0] - M0)) <= 1e-10 * M0
                        ctx.check("toy: events are physical", bool(phys), lambda: {"card": cards.short(card), "N": N}, mechanism="generate_toy_p kinematics")
                # distribution test
                if i % 4 in (0, 1) or ctx.tier == "thorough":
                    Nt = ctx.pick(3000, 30000)
                    p = cfg.generate_toy_p(Nt, max_N=20000)
                    names = [f["name"] for f in card["meta"]["finals"]]
                    arr = [np.asarray({str(k): v for k, v in p.items()}[nm]) for nm in names]
                    ref = cfg.generate_phsp_p(ctx.pick(40000, 300000))
                    refa = [np.asarray({str(k): v for k, v in ref.items()}[nm]) for nm in names]
                    w = np.asarray(cfg.eval_amplitude(*[tf.constant(x) for x in refa]))
                    g = 7
                    s12t, s23t = kin.mass2(arr[0] + arr[1]), kin.mass2(arr[1] + arr[2])
                    s12r, s23r = kin.mass2(refa[0] + refa[1]), kin.mass2(refa[1] + refa[2])
                    e1 = np.linspace(s12r.min(), s12r.max() + 1e-9, g + 1)
                    e2 = np.linspace(s23r.min(), s23r.max() + 1e-9, g + 1)
                    H, _, _ = np.histogram2d(s12t, s23t, bins=[e1, e2])
                    Hw, _, _ = np.histogram2d(s12r, s23r, bins=[e1, e2], weights=w)
                    Hw2, _, _ = np.histogram2d(s12r, s23r, bins=[e1, e2], weights=w * w)
                    scale = Nt / Hw.sum()
                    exp = Hw * scale
                    var = exp + Hw2 * scale * scale
                    sel = (exp > 25) & (Hw2 > 0) & (Hw**2 / np.where(Hw2 > 0, Hw2, 1) > 100)
                    if sel.sum() >= 4:
                        from scipy.stats import chi2 as chi2d

                        x2 = float(np.sum((H[sel] - exp[sel]) ** 2 / var[sel]))
                        pv = float(chi2d.sf(x2, int(sel.sum()) - 1))
                        stat.add("toy: sample follows the model density", "toy sample does not follow the density", pv,
                                 {"card": cards.short(card), "chi2": x2, "ndf": int(sel.sum()) - 1, "N": Nt, "narrow": i % 2 == 0})
        except CaseTimeout:
            ctx.count("case_timeout(inconclusive):toys")
            continue
        except Exception as e:
            ctx.violation("toy: exactly N events", ctx.exc_witness(e, card=cards.short(card)), mechanism="toy generation raises")
            continue
        ctx.case(("toy", cards.card_digest_key(card), i % 2), nontrivial=True)
        ctx.count("toy_case_seconds", int(_time.time() - _t_case))
        if i < 1:
            ctx.sample({"section": "toys", "card": cards.short(card), "sizes": [1, 7, 1000], "rounds_observed": rounds["n"]})
    ctx.count("rejection_rounds_observed", rounds["n"])
    ctx.count("rejection_rounds_empty", rounds["empty"])

    # ------------------------------------------------------------ the generic acceptance-rejection generator with a user-supplied bound
    # (ARGenerator / multi_sampling with max_weight given as a plain number: too low, about right, far too high, or not given)
    from scipy.special import erf as _erf

    from tf_pwa.data import data_shape as _dshape
    from tf_pwa.generator.generator import ARGenerator

    n_ar = ctx.pick(16, 200)
    for i, rng in ctx.cases("ar_generator", n_ar, budget_s=ctx.pick(120, 900)):
        x0, sg, hgt = float(rng.uniform(0.2, 0.8)), float(rng.choice([0.01, 0.03, 0.1])), float(rng.choice([5.0, 50.0]))
        true_max = 1.0 + hgt
        kind = ["too low", "about right", "far too high", "not given"][i % 4]
        mw = {"too low": 0.3 * true_max, "about right": 1.02 * true_max, "far too high": 20 * true_max, "not given": None}[kind]
        if mw is not None and (i // 4) % 2 == 1:
            mw = np.float64(mw)  # a NumPy scalar instead of a Python float
        N = int(rng.choice([1, 50, 3000]))
        desc = {"density": "1 + %g exp(-((x-%.3f)/%.3f)^2) on [0,1]" % (hgt, x0, sg), "max_weight": None if mw is None else float(mw), "max_weight_type": type(mw).__name__,
                "bound_class": kind, "N": N}
        ctx.context = desc
        try:
            with time_limit(ctx.pick(60, 200)):
                gen = ARGenerator(lambda n_: tf.random.uniform((n_,), dtype=tf.float64), lambda x_: 1.0 + hgt * tf.exp(-(((x_ - x0) / sg) ** 2)), max_weight=mw)
                out = np.asarray(gen.generate(N))
            ctx.check("toy: exactly N events", out.shape == (N,), lambda: dict(desc, got=out.shape), mechanism="ARGenerator count (bound %s)" % kind)
            if N >= 3000 and out.shape == (N,):
                edges = np.linspace(0, 1, 21)
                cdf = lambda t: t + hgt * sg * math.sqrt(math.pi) / 2 * (_erf((t - x0) / sg) - _erf((0 - x0) / sg))
                pbin = np.diff(cdf(edges)) / (cdf(1.0) - cdf(0.0))
                obs, _ = np.histogram(out, bins=edges)
                pv, x2, ndf = chi2_p(obs, pbin * N)
                if pv is not None:
                    stat.add("toy: sample follows the model density", "ARGenerator sample does not follow the density (bound %s)" % kind, pv, dict(desc, chi2=x2, ndf=ndf))
        except CaseTimeout:
            ctx.count("case_timeout(inconclusive):ar_generator")
            continue
        except Exception as e:
            ctx.violation("toy: exactly N events", ctx.exc_witness(e, **desc), mechanism="ARGenerator raises (bound %s, %s)" % (kind, type(mw).__name__))
        ctx.case(("ar", i), nontrivial=kind != "about right")
        ctx.covered("ar_bound", kind)

    # ------------------------------------------------------------ LinearInterp
    from tf_pwa.generator.linear_interpolation import LinearInterp

    n_l = ctx.pick(200, 4000)
    for i, rng in ctx.cases("linear_interp", n_l):
        n = int(rng.integers(2, 30))
        x = np.cumsum(rng.uniform(0.01, 1.0, n)) + float(rng.uniform(-3, 3))
        y = rng.uniform(0.0, 5.0, n)
        kind = str(rng.choice(["generic", "zero", "flat", "steep"]))
        if kind == "zero" and n >= 4:
            j = int(rng.integers(1, n - 2))
            y[j] = 0.0
            y[j + 1] = 0.0
        if kind == "flat" and n >= 3:
            j = int(rng.integers(0, n - 1))
            y[j + 1] = y[j]
        if kind == "steep":
            j = int(rng.integers(0, n - 1))
            y[j] = 1e-3
            y[min(j + 1, n - 1)] = 500.0
        y[0] = max(y[0], 0.01)
        y[-1] = max(y[-1], 0.01)
        desc = {"x": x, "y": y, "kind": kind}
        try:
            li = LinearInterp(x, y)
            tot = np.trapezoid(y, x)
            u = np.concatenate([rng.uniform(0, 1, 40), [0.0, 1e-12, 0.5]])
            s = li.solve(u)
            span = x[-1] - x[0]
            in_range = np.all(s >= x[0] - 1e-7 * span) and np.all(s <= x[-1] + 1e-7 * span) and np.all(np.isfinite(s))  # rounding of the quadratic root
            back = li.integral(s)
            d_inv = float(np.max(np.abs(back - u * tot)) / tot)
            us = np.sort(u)
            mono = np.all(np.diff(li.solve(us)) >= -1e-9)
            ok_tot = abs(li.integral(np.array([x[-1]]))[0] - tot) <= 1e-9 * tot and abs(li.int_all - tot) <= 1e-9 * tot
            ctx.dev("LinearInterp CDF inversion", d_inv, 1e-9)
            ctx.check("LinearInterp: integral(solve(u)) == u*total", bool(d_inv < 1e-9 and in_range and mono and ok_tot),
                      lambda: dict(desc, dev=d_inv, in_range=bool(in_range), monotone=bool(mono), total_ok=bool(ok_tot)), mechanism="LinearInterp inversion (%s grid)" % kind)
            xs = rng.uniform(x[0], x[-1], 30)
            dv = float(np.max(np.abs(li(xs) - np.interp(xs, x, y))))
            ctx.check("LinearInterp: __call__ == numpy.interp", dv <= 1e-9 * (1 + np.max(y)), lambda: dict(desc, dev=dv), mechanism="LinearInterp value (%s grid)" % kind)
        except Exception as e:
            ctx.violation("LinearInterp: integral(solve(u)) == u*total", ctx.exc_witness(e, **{k: v for k, v in desc.items()}), mechanism="LinearInterp raises (%s grid)" % kind)
        ctx.case(("li", i, kind), nontrivial=kind != "generic")
        ctx.covered("grid_kind", kind)

    # ------------------------------------------------------------ BWGenerator
    from tf_pwa.generator.breit_wigner import BWGenerator

    n_bw = ctx.pick(100, 2000)
    for i, rng in ctx.cases("bw_generator", n_bw):
        m0, g0 = float(rng.uniform(0.3, 3.0)), float(rng.choice([1e-3, 0.02, 0.2, 1.0]))
        lo = m0 + float(rng.uniform(-2, 0.5))
        hi = lo + float(rng.uniform(0.05, 3.0))
        bg = BWGenerator(m0, g0, lo, hi)
        u = np.concatenate([rng.uniform(0, 1, 30), [0.0, 1.0]])
        s = bg.solve(u)
        ok_r = np.all(s >= lo - 1e-9) and np.all(s <= hi + 1e-9)
        dv = float(np.max(np.abs((bg.integral(s) - bg.integral(lo)) - u * bg.int_all)) / bg.int_all)
        # __call__ is the derivative of integral
        xs = rng.uniform(lo, hi, 10)
        h = 1e-6
        fd = (bg.integral(xs + h) - bg.integral(xs - h)) / (2 * h)
        okd = np.max(np.abs(fd - bg(xs)) / bg(xs)) < 1e-5
        ctx.dev("BWGenerator CDF inversion", dv, 1e-9)
        ctx.check("BWGenerator: CDF inversion", bool(dv < 1e-9 and ok_r and okd), lambda: {"m0": m0, "g0": g0, "lo": lo, "hi": hi, "dev": dv, "in_range": bool(ok_r), "pdf_ok": bool(okd)},
                  mechanism="BWGenerator inversion")
        ctx.case(("bw", i), nontrivial=True)

    # ------------------------------------------------------------ InterpND / InterpNDHist
    from scipy.interpolate import RegularGridInterpolator

    from tf_pwa.generator.interp_nd import InterpND, InterpNDHist

    n_nd = ctx.pick(40, 500)
    for i, rng in ctx.cases("interp_nd", n_nd):
        nd = 1 + i % 3
        uniform = bool(i % 2 == 0)
        xs = []
        for d in range(nd):
            k = int(rng.integers(3, 7))
            xs.append(np.linspace(0, 1 + d, k) if uniform else np.cumsum(rng.uniform(0.05, 1.0, k)))
        z = rng.uniform(0.0, 3.0, [len(a) for a in xs])
        desc = {"n_dim": nd, "uniform_grid": uniform, "grid": [a for a in xs]}
        try:
            f = InterpND(xs, z)
            pts = np.stack([rng.uniform(a[0], a[-1], 50) for a in xs])
            ref = RegularGridInterpolator(xs, z)(pts.T)
            dv = float(np.max(np.abs(f(pts) - ref)))
            ctx.check("InterpND: __call__ == RegularGridInterpolator", dv < 1e-10, lambda: dict(desc, dev=dv), mechanism="InterpND value")
            N = ctx.pick(20000, 60000)
            g = f.generate(N)
            inside = all(np.all((g[:, d] >= xs[d][0] - 1e-12) & (g[:, d] <= xs[d][-1] + 1e-12)) for d in range(nd))
            ctx.check("InterpND: generated points inside the grid box", bool(inside), desc, mechanism="InterpND range")
            # chi2 against the interpolant integrated over every grid cell split in two along each axis (the shape INSIDE a cell
            # is part of the target): the integral of a multilinear function over a box is its value at the centre times the volume
            edges = [np.sort(np.concatenate([a, 0.5 * (a[1:] + a[:-1])])) for a in xs]
            H, _ = np.histogramdd(g, bins=edges)
            centres = np.meshgrid(*[0.5 * (e[1:] + e[:-1]) for e in edges], indexing="ij")
            vol = np.ones_like(centres[0])
            for d in range(nd):
                shp = [1] * nd
                shp[d] = -1
                vol = vol * np.diff(edges[d]).reshape(shp)
            exp = RegularGridInterpolator(xs, z)(np.stack([c.ravel() for c in centres], axis=-1)).reshape(vol.shape) * vol
            exp = exp / exp.sum() * N
            pv, x2, ndf = chi2_p(H.ravel(), exp.ravel())
            if pv is not None:
                stat.add("InterpND: sample follows the interpolant", "InterpND sample vs interpolant (%s grid)" % ("uniform" if uniform else "non-uniform"), pv,
                         dict(desc, chi2=x2, ndf=ndf))
            fh = InterpNDHist(xs, z)
            gh = fh.generate(2000)
            inside = all(np.all((gh[:, d] >= xs[d][0] - 1e-12) & (gh[:, d] <= xs[d][-1] + 1e-12)) for d in range(nd))
            ctx.check("InterpND: generated points inside the grid box", bool(inside), desc, mechanism="InterpNDHist range")
            # the histogram envelope must dominate the interpolant (it is used as rejection envelope)
            env = fh(pts)
            ctx.check("InterpNDHist envelope >= interpolant", bool(np.all(env >= ref - 1e-12)), desc, mechanism="InterpNDHist envelope")
        except Exception as e:
            ctx.violation("InterpND: __call__ == RegularGridInterpolator", ctx.exc_witness(e, **desc), mechanism="InterpND raises")
        ctx.case(("nd", nd, uniform, i), nontrivial=nd >= 2 or not uniform)
        ctx.covered("interp_nd_dims", nd)

    # ------------------------------------------------------------ adaptive bins
    from tf_pwa.adaptive_bins import AdaptiveBound

    n_a = ctx.pick(80, 1500)
    for i, rng in ctx.cases("adaptive", n_a):
        nd = 1 + i % 3
        n = int(rng.choice([50, 257, 1000, 4096]))
        ties = bool(i % 4 == 3)
        data = rng.normal(size=(nd, n)) * rng.uniform(0.5, 2.0, (nd, 1)) + rng.uniform(-1, 1, (nd, 1))
        if ties:
            data = np.round(data, 1)
            n = max(n, 257)
            data = np.round(rng.normal(size=(nd, n)), 1)
        layers = int(rng.integers(1, 3))
        bins = [[int(rng.integers(1, 4)) for _ in range(nd)] for _ in range(layers)]
        if ties:
            # duplicate-rich data: keep far fewer bins than distinct values (an empty intermediate bin cannot be split further)
            bins = [[int(rng.integers(1, 3)) for _ in range(nd)]]
        nbins = int(np.prod([np.prod(b) for b in bins]))
        if n < 4 * nbins:  # more bins than events is outside the domain (an empty bin cannot be split)
            n = 4 * nbins + int(rng.integers(0, 7))
            data = rng.normal(size=(nd, n)) if not ties else np.round(rng.normal(size=(nd, n)), 1)
        # single-precision data on the scale of masses in MeV (every fourth tie-free case)
        f32 = (not ties) and (i // 4) % 4 == 1
        if f32:
            data = (data * 300.0 + 2000.0).astype(np.float32)
        ctx.covered("adaptive_dtype", "float32 (MeV scale)" if f32 else "float64")
        desc = {"n_dim": nd, "n": n, "bins": bins, "ties": ties, "dtype": str(data.dtype), "scale": "MeV-like (x300 + 2000)" if f32 else "O(1)"}
        mech_sfx = " (float32 data)" if f32 else ""
        try:
            ab = AdaptiveBound(data, bins)
            masks = ab.get_bool_mask(data)
            cnt = np.sum(np.stack(masks).astype(int), axis=0)
            ctx.check("AdaptiveBound: every event in exactly one bin", len(masks) == nbins and bool(np.all(cnt == 1)),
                      lambda: dict(desc, n_masks=len(masks), not_once=int(np.sum(cnt != 1))), mechanism="adaptive bins partition" + (" (data with ties)" if ties else "") + mech_sfx)
            parts = ab.split_data(data)
            tot = sum(p.shape[-1] for p in parts)
            ctx.check("AdaptiveBound: every event in exactly one bin", tot == n, lambda: dict(desc, total=tot), mechanism="adaptive bins split_data total" + mech_sfx)
            # ANOTHER sample (the phase-space MC or background a chi2 is compared with) inside the bounding box of the binned one:
            # the bins tile the box, so each of its events is in exactly one bin as well
            lo_, hi_ = data.min(axis=1, keepdims=True), data.max(axis=1, keepdims=True)
            other = (lo_ + (hi_ - lo_) * rng.random((nd, 400))).astype(data.dtype)
            other = np.minimum(np.maximum(other, lo_), hi_)
            cnt2 = np.sum(np.stack(ab.get_bool_mask(other)).astype(int), axis=0)
            tot2 = sum(p.shape[-1] for p in ab.split_data(other))
            ctx.check("AdaptiveBound: every event in exactly one bin", bool(np.all(cnt2 == 1)) and tot2 == 400,
                      lambda: dict(desc, other_sample_not_once=int(np.sum(cnt2 != 1)), split_total=tot2, of=400),
                      mechanism="adaptive bins do not tile the box (other sample, %d layer%s)" % (layers if not ties else 1, "" if (layers if not ties else 1) == 1 else "s"))
            if not ties:
                pops = np.array([int(m.sum()) for m in masks])
                # each split level distributes its events within +-1 of equal shares
                n_levels = sum(1 for b in bins for s in b if s > 1)
                okp = bool(np.max(np.abs(pops - n / nbins)) <= 1 + n_levels)
                ctx.check("AdaptiveBound: near-equal populations", okp, lambda: dict(desc, populations=pops.tolist(), ideal=n / nbins), mechanism="adaptive bins populations" + mech_sfx)
        except Exception as e:
            ctx.violation("AdaptiveBound: every event in exactly one bin", ctx.exc_witness(e, **desc), mechanism="AdaptiveBound raises")
        ctx.case(("ab", nd, n, repr(bins), ties), nontrivial=nd >= 2 or layers >= 2)

    # ------------------------------------------------------------ histograms
    from tf_pwa.histogram import Hist1D, WeightedData

    n_hh = ctx.pick(150, 3000)
    for i, rng in ctx.cases("histograms", n_hh):
        n = int(rng.choice([1, 10, 500, 5000]))
        m = rng.normal(size=n)
        wk = str(rng.choice(["none", "positive", "mixed", "zeros", "cancelling"]))
        w = None
        if wk == "positive":
            w = rng.uniform(0.1, 3, n)
        elif wk == "mixed":
            w = rng.normal(size=n)
        elif wk == "zeros":
            w = rng.uniform(0.1, 3, n) * (rng.random(n) < 0.7)
        elif wk == "cancelling":
            # sideband-subtraction style weights: populated bins whose weights sum to exactly zero occur
            w = rng.choice([1.0, -1.0, 0.5, -0.5], n)
        nb = int(rng.integers(1, 40))
        rg = (-1.5, 2.0)
        desc = {"n": n, "weights": wk, "bins": nb, "range": rg}
        try:
            h = Hist1D.histogram(m, bins=nb, range=rg, weights=w)
            inr = (m >= rg[0]) & (m <= rg[1])
            ww = np.ones(n) if w is None else w
            sw, sw2 = float(np.sum(ww[inr])), float(np.sum(ww[inr] ** 2))
            pop = np.histogram(m, bins=nb, range=rg)[0] > 0
            ok = abs(h.count.sum() - sw) <= 1e-9 * (1 + abs(sw)) and abs(np.sum(h.error[pop] ** 2) - sw2) <= 1e-9 * (1 + sw2) and np.all(np.isinf(h.error[~pop]))
            h0 = Hist1D.histogram(m, bins=nb, range=rg, weights=w, mask_error=0)
            ok = ok and abs(np.sum(h0.error**2) - sw2) <= 1e-9 * (1 + sw2)
            # operators
            h2 = Hist1D.histogram(rng.normal(size=n), bins=nb, range=rg, weights=w, mask_error=0)
            s_ = h0 + h2
            d_ = h0 - h2
            k = float(rng.uniform(-2, 3))
            m_ = h0 * k
            ok = ok and np.allclose(s_.count, h0.count + h2.count) and np.allclose(d_.count, h0.count - h2.count) and np.allclose(s_.error**2, h0.error**2 + h2.error**2) \
                and np.allclose(m_.count, k * h0.count) and np.allclose(np.abs(m_.error), abs(k) * h0.error)
            wd = WeightedData(m, bins=nb, range=rg, weights=w)
            ok = ok and abs(wd.count.sum() - sw) <= 1e-9 * (1 + abs(sw)) and abs(np.sum(wd.error**2) - sw2) <= 1e-9 * (1 + sw2)
            wd2 = wd + WeightedData(m, bins=nb, range=rg, weights=w)
            ok = ok and np.allclose(wd2.count, 2 * wd.count) and np.allclose(wd2.error**2, 2 * wd.error**2)
            ctx.check("Hist1D: sum of weights / squared weights conserved", bool(ok), lambda: dict(desc, sum_w=sw, hist_sum=float(h.count.sum()), sum_w2=sw2,
                                                                                                 hist_err2=float(np.sum(h0.error**2))), mechanism="histogram conservation (%s weights)" % wk)
        except Exception as e:
            ctx.violation("Hist1D: sum of weights / squared weights conserved", ctx.exc_witness(e, **desc), mechanism="histogram raises")
        ctx.case(("hist", n, wk, nb, i), nontrivial=wk != "none")

    # ------------------------------------------------------------ judge statistical monitors
    ntests = max(1, len(stat.tests))
    alpha = 1e-8 / ntests
    ctx.count("statistical_tests", len(stat.tests))
    for monitor, mech, pv, wit in stat.tests:
        if not np.isfinite(pv):
            continue
        ctx.check(monitor, pv >= alpha, dict(wit, p_value=pv, alpha_per_test=alpha), mechanism=mech)
