"""C05 - every evaluation strategy returns the same density and likelihood."""
import contextlib
import copy
import gc
import io
import math

import numpy as np

from ..gen import cards
from .c01 import conditioned, tolerance

LEVEL = "exploration"
SHARDS = {"quick": 14, "thorough": 16}
TIMEOUT = {"quick": 700, "thorough": 3400}
THREADS = {"quick": 1, "thorough": 1}
RULE = (
    "per case (strategies): one generated card x parameters by name x 40 events; the default eager model is compared with "
    "every data-section strategy {cached_amp(+no_p4/no_angle), cached_shape, cached_angle+base_factor, base_factor, "
    "p4_directly, use_tf_function(+no_id_cached), jit_compile, lazy_call(+lazy_file)}: first call, second call (cached-function "
    "path), a call after the couplings (incl. free Flatte channel couplings) were changed (stale-cache detection), the same couplings stored in "
    "Cartesian form, and chain subsets that are not a prefix of the chain list; card classes with identical particles, CP-violating couplings "
    "and interleaved declarations.  per case (likelihood): toy data/phsp/bg x "
    "{cached_int, cached_amp, cfit vs cfit+cached_amp, lazy_call} value and gradient vs the default model at 3 parameter points "
    "and on a second data set built after the first was garbage-collected.  programs: every einsum call DecayChain.get_amp "
    "emits during the run is re-evaluated with tf.einsum (online contract at the call site) + random valid expressions vs "
    "numpy.einsum.  non-trivial = >=2 chains with spin / >=3 operands or a size-1 axis; distinct = card key+strategy / "
    "(expression, shapes)."
)
ASSUMPTIONS = [
    "CPU only: XLA (jit_compile) is exercised on CPU; multi_gpu paths are not driven",
    "cached strategies with fixed masses/widths only, as the property requires; only couplings are changed between calls",
    "a strategy that raises on a card is recorded as declined for that card (not judged); each strategy must be judged a minimum number of times",
    "FCN.__call__ on lazy_call data is a declined path in this tree (TypeError); the batched nll_grad is compared instead",
    "density tolerance as C01; NLL 1e-9 relative, gradient 1e-7*(|g|+1e-3*max|g|)",
]
REQUIRE = {
    "monitors": {
        "strategy cached_amp": 5, "strategy cached_amp+no_p4+no_angle": 3, "strategy cached_shape": 5, "strategy cached_angle+base_factor": 5,
        "strategy base_factor": 5, "strategy p4_directly": 5, "strategy use_tf_function": 2, "strategy lazy_call": 3,
        "likelihood cached_int": 3, "likelihood cached_amp": 3, "likelihood cfit+cached_amp": 2,
        "einsum call site == tf.einsum": 50, "synthetic einsum == numpy.einsum": 100,
    },
    "min_nontrivial": {"quick": 30, "thorough": 300},
}
LEVEL_TEXT = ("Pair monitor (default eager model vs every interchangeable evaluation strategy selectable in the data section, value and "
              "gradient for the likelihood models), an online contract wrapped around the library's own einsum at its real call site, and "
              "random valid einsum programs against numpy.einsum.")
TECHNIQUE = "differential runtime monitor across evaluation strategies (full model, chain subsets, changed parameters, other coordinate form) + online contract at the einsum call site"

STRATEGIES = {
    "cached_amp": {"preprocessor": "cached_amp", "amp_model": "cached_amp"},
    "cached_amp+no_p4+no_angle": {"preprocessor": "cached_amp", "amp_model": "cached_amp", "no_p4": True, "no_angle": True},
    "cached_shape": {"preprocessor": "cached_shape", "amp_model": "cached_shape"},
    "cached_angle+base_factor": {"preprocessor": "cached_angle", "amp_model": "base_factor"},
    "base_factor": {"amp_model": "base_factor"},
    "p4_directly": {"preprocessor": "p4_directly", "amp_model": "p4_directly"},
    "lazy_call": {"lazy_call": True},
    "lazy_call+lazy_file": {"lazy_call": True, "lazy_file": True},
}
TRACED = {
    "use_tf_function": {"use_tf_function": True},
    "use_tf_function+no_id_cached": {"use_tf_function": True, "no_id_cached": True},
    "jit_compile": {"use_tf_function": True, "jit_compile": True},
    "cached_amp+use_tf_function": {"preprocessor": "cached_amp", "amp_model": "cached_amp", "use_tf_function": True, "no_p4": True, "no_angle": True},
}
MODELS5 = ("default", "default", "BW", "one")


def quiet():
    return contextlib.redirect_stdout(io.StringIO())


def couplings_changed(params, key):
    """second parameter point: only couplings (names ending r/i) move"""
    out = dict(params)
    for k in sorted(params):
        if k.endswith("_mass") or k.endswith("_width"):
            continue
        r = np.random.default_rng(list(key) + [cards.hash_name(k)])
        if k.endswith("r"):
            out[k] = float(params[k] * r.uniform(0.6, 1.5))
        elif k.endswith("i"):
            out[k] = float(params[k] + r.uniform(-1.0, 1.0))
        elif __import__("re").search(r"_g_\d+$", k):  # channel couplings of a Flatte line shape (line-shape parameters kept in a list)
            out[k] = float(params[k] * r.uniform(1.3, 2.0))
    return out


def install_einsum_contract(ctx):
    import tensorflow as tf

    import tf_pwa.amp.core as core

    orig = core.einsum
    seen = set()

    def checked_einsum(expr, *args, **kwargs):
        try:
            ret = orig(expr, *args, **kwargs)
        except Exception:
            ctx.count("einsum_declined_by_raising")
            raise  # the caller falls back to tf.einsum: allowed by the property
        try:
            got = np.asarray(ret)
            ref = np.asarray(tf.einsum(expr, *args))
        except Exception:
            ctx.count("einsum_not_observable(symbolic)")
            return ret
        shapes = tuple(tuple(a.shape) for a in args)
        key = (expr, shapes)
        ok = got.shape == ref.shape and (ref.size == 0 or np.max(np.abs(got - ref)) <= 1e-10 * (np.max(np.abs(ref)) + 1e-300))
        ctx.check("einsum call site == tf.einsum", bool(ok), lambda: {"expr": expr, "shapes": shapes, "context": ctx.context,
                                                                      "max_dev": float(np.max(np.abs(got - ref))) if got.shape == ref.shape else "shape"},
                  mechanism="custom einsum at DecayChain.get_amp")
        if key not in seen:
            seen.add(key)
            ctx.covered("einsum_programs_emitted", "%s %s" % (expr, [s[1:] for s in shapes]))
            ctx.case(("einsum", expr, tuple(s[1:] for s in shapes)), nontrivial=len(args) >= 3 or any(1 in s[1:] for s in shapes))
        return ret

    core.einsum = checked_einsum


def run(ctx):
    import tensorflow as tf

    from .. import attach

    attach.density_contract(ctx)
    install_einsum_contract(ctx)

    # ------------------------------------------------------------ strategies
    import time as _t
    _t0 = _t.time()
    n_cards = ctx.pick(14, 600)
    for i, rng in ctx.cases("strategies", n_cards, budget_s=ctx.pick(330, 1700)):
        tag = "_c05s%di%d" % (ctx.seed, i)
        nb = 3 if i % 3 else 4
        try:
            card = cards.CardGen(rng, tag, nbody=nb, n_chains=(2, 3), final_j2=(0, 1, 1, 2) if nb == 3 else (0, 0, 1, 2),
                                 res_per_slot=(2, 2) if i % 5 == 2 else ((1, 2) if nb == 3 or i % 2 == 0 else (1, 1)), models=MODELS5, decay_opts_prob=0.2).make()
            special = ""
            if nb == 3 and i % 6 == 4:
                # two identical spin-0 final particles (identical_particles declared): every strategy must keep the symmetrisation
                from ..gen.cards import FINAL_MASSES
                p_, m_ = int(rng.choice([-1, 1])), float(rng.choice(FINAL_MASSES[:4]))
                card = cards.CardGen(rng, tag, nbody=3, n_chains=(2, 3), fixed_finals=[(0, p_, m_), (0, p_, m_), (int(rng.choice([0, 1, 2])), int(rng.choice([-1, 1])), float(rng.choice(FINAL_MASSES[:4])))],
                                     res_per_slot=(1, 1), models=MODELS5, decay_opts_prob=0.0).make()
                fn_ = [f["name"] for f in card["meta"]["finals"]]
                card["config"]["data"]["identical_particles"] = [[fn_[0], fn_[1]]]
                special = " [identical_particles]"
            elif nb == 3 and i % 6 == 5:
                # one resonance with a Flatte line shape whose channel couplings are free parameters (kept in a list by the model)
                r0_ = card["meta"]["resonances"][0]
                fm_ = {j_: card["meta"]["finals"][j_]["mass"] for j_ in r0_["slot"]}
                pc_ = card["config"]["particle"][r0_["name"]]
                pc_["model"] = "Flatte"
                pc_["mass_list"] = [[fm_[r0_["slot"][0]], fm_[r0_["slot"][1]]], [float(rng.uniform(0.2, 0.6)), float(rng.uniform(0.2, 0.6))]]
                pc_.pop("width", None)
                special = " [free Flatte couplings]"
            ctx.covered("card_special", special.strip() or "none")
            # every fourth card: CP-violating chain couplings (decay_chain: {$all: {is_cp: True}}) and events of both charges
            cp_card = i % 4 == 1
            if cp_card:
                card["config"]["decay_chain"] = {"$all": {"is_cp": True}}
            # every fifth card: candidate lists written out and the decays of each mother shuffled, so that chains of the same
            # topology are NOT contiguous in the declaration (per-chain lists of the factorised strategies are paired by position)
            interleaved = i % 5 == 2
            if interleaved:
                card = {"config": cards.expanded_config(card["config"], rng), "meta": card["meta"]}
            ctx.covered("chain_declaration", "interleaved topologies" if interleaved else "grouped by topology")
            base = cards.load(card)
            amp0 = base.get_amplitude()
            p1 = cards.random_params(amp0, (ctx.seed, i))
            amp0.set_params(p1)
            p1 = {k: float(v) for k, v in amp0.get_params().items()}
            p2 = couplings_changed(p1, (ctx.seed, i, 2))
        except Exception as e:
            ctx.count("card_failed")
            ctx.note("card failed %r" % (e,))
            continue
        meta = card["meta"]
        ps = cards.events(card, 40, rng)
        good = conditioned(card, ps)
        ctx.context = {"card": cards.short(card), "index": i}
        extra = {"charge_conjugation": rng.choice([1.0, -1.0], 40)} if cp_card else {}
        kf_cp = " [is_cp chains, events of both charges]" if cp_card else ""
        ctx.covered("cp_violating_chains", cp_card)
        f1, _ = cards.density(base, ps, **extra)
        amp0.set_params(p2)
        f2, _ = cards.density(base, ps, **extra)
        amp0.set_params(p1)
        if not np.median(f1) > 1e-20:
            ctx.count("degenerate_zero_density")
            continue
        spin = meta["spinning"] and len(meta["trees"]) >= 2
        # partial models: a subset of the chains that is NOT a prefix of the chain list (the last chain alone, first + last), as
        # partial_weight / fit fractions / plots of single components select them
        n_ch = len(amp0.decay_group.chains)
        subsets = ([[n_ch - 1]] + ([[0, n_ch - 1]] if n_ch >= 3 else [])) if n_ch >= 2 else []
        f_sub = []
        for sub_ in subsets:
            amp0.decay_group.set_used_chains(sub_)
            f_sub.append(cards.density(base, ps, **extra)[0])
        amp0.decay_group.set_used_chains(list(range(n_ch)))

        def judge(name, opts):
            monitor = "strategy " + name
            try:
                with quiet():
                    cfg = cards.load(card, extra_data=opts)
                    amp = cfg.get_amplitude()
                    if set(amp.get_params()) != set(p1):
                        ctx.count("skipped_param_names_differ:" + name)
                        return
                    amp.set_params(p1)
                    data = cfg.data.cal_angle([np.ascontiguousarray(p) for p in ps], **extra)
                    for k_, v_ in extra.items():  # as SimpleData.load_data does with its extra columns
                        data[k_] = v_
                    g1 = np.asarray(amp(data))
                    g1b = np.asarray(amp(data))  # second call: cached-function path of AbsPDF.__call__
                    amp.set_params(p2)
                    g2 = np.asarray(amp(data))
                    amp.set_params(p1)
                    g3 = np.asarray(amp(data))
                    # the same complex couplings stored in Cartesian instead of polar form
                    g4 = None
                    if not cp_card:  # (the charge-dependent value of CP-violating couplings does not survive the switch in any model: C16's finding)
                        try:
                            amp.vm.rp2xy_all()
                            g4 = np.asarray(amp(data))
                        finally:
                            amp.vm.xy2rp_all()
                    g_sub = []
                    if len(amp.decay_group.chains) == n_ch:
                        for sub_ in subsets:
                            amp.decay_group.set_used_chains(sub_)
                            try:
                                g_sub.append(np.asarray(amp(data)))
                            finally:
                                amp.decay_group.set_used_chains(list(range(n_ch)))
            except Exception as e:
                ctx.count("declined(raised):" + name)
                ctx.note("strategy %s raised %r on %s" % (name, e, cards.short(card)["resonances"]))
                return
            tol1, tol2 = tolerance(f1), tolerance(f2)
            devs = {"first call": np.abs(g1 - f1) / tol1, "second call": np.abs(g1b - f1) / tol1,
                    "after coupling change": np.abs(g2 - f2) / tol2, "after restoring couplings": np.abs(g3 - f1) / tol1}
            for sub_, fs_, gs_ in zip(subsets, f_sub, g_sub):
                if np.median(fs_) > 1e-20:
                    devs["chains %s only" % sub_] = np.abs(gs_ - fs_) / tolerance(fs_)
                    ctx.count("strategy x chain subset compared")
            worst_label, worst = max(((k, float(np.max(v[good])) if np.any(good) else 0.0) for k, v in devs.items()), key=lambda t: t[1])
            ctx.dev(monitor + " (|df|/tol)", worst, 1.0)
            ctx.check(monitor, worst <= 1.0, lambda: {"card": cards.short(card), "config": card["config"], "data_opts": opts, "param_key": [ctx.seed, i],
                                                      "phase": worst_label, "worst_ratio": worst, "f_default": f1[:3], "f_strategy": g1[:3],
                                                      "charges": None if not cp_card else extra["charge_conjugation"][:6]},
                      mechanism=monitor + (kf_cp if cp_card else special))
            if g4 is not None and worst <= 1.0:  # (only where the strategy agrees before the switch)
                d4 = np.abs(g4 - f1) / tol1
                w4 = float(np.max(d4[good])) if np.any(good) else 0.0
                ctx.check(monitor, w4 <= 1.0, lambda: {"card": cards.short(card), "config": card["config"], "data_opts": opts, "param_key": [ctx.seed, i],
                                                       "phase": "couplings switched from polar to Cartesian form (rp2xy_all), same complex values", "worst_ratio": w4, "f_default": f1[:3], "f_strategy": g4[:3]},
                          mechanism=monitor + " [after a polar -> Cartesian switch of the couplings]")
            ctx.case(cards.card_digest_key(card) + (name,), nontrivial=spin)

        for name, opts in STRATEGIES.items():
            judge(name, opts)
        traced = list(TRACED.items())
        # tracing costs 2-10 s: a rotating subset per card
        for name, opts in (traced[i % len(traced)],) if ctx.tier == "quick" and i % 4 else traced[: (2 if ctx.tier == "quick" else 4)]:
            if ctx.tier == "quick" and i % 4 and i % 2:
                break
            judge(name, opts)
        if i < ctx.nshards:
            ctx.sample({"card": cards.short(card), "strategies": list(STRATEGIES) + list(TRACED), "f_default_event0": f1[0]}, limit=2)

    ctx.count('seconds_strategies', int(_t.time() - _t0))
    _t0 = _t.time()
    # ------------------------------------------------------------ likelihood models
    n_lik = ctx.pick(14, 200)
    for i, rng in ctx.cases("likelihood", n_lik, budget_s=ctx.pick(300, 1500)):
        tag = "_c05Ls%di%d" % (ctx.seed, i)
        try:
            card = cards.CardGen(rng, tag, nbody=3, n_chains=(2, 3), final_j2=(0, 1, 2), res_per_slot=(1, 1), models=("default",),
                                 decay_opts_prob=0.0).make()
        except RuntimeError:
            continue
        cp_lik = i % 4 == 1  # CP-violating chain couplings and samples of both charges
        if cp_lik:
            card["config"]["decay_chain"] = {"$all": {"is_cp": True}}
        kf_cpl = " [is_cp chains, events of both charges]" if cp_lik else ""
        ctx.covered("cp_violating_chains(likelihood)", cp_lik)
        ctx.context = {"card": cards.short(card), "index": i}

        def toy(cfg, n, r, with_cfit=False, weighted=None):
            pp = cards.events(card, n, r, classes=False)
            ex = {"charge_conjugation": r.choice([1.0, -1.0], n)} if cp_lik else {}
            with quiet():
                d = cfg.data.cal_angle([np.ascontiguousarray(p) for p in pp], **ex)
            for k_, v_ in ex.items():
                d[k_] = v_
            if with_cfit:
                d["bg_value"] = r.uniform(0.5, 1.5, n)
                d["eff_value"] = r.uniform(0.5, 1.0, n)
            if weighted:
                w = r.uniform(0.3, 1.7, n)
                if weighted == "mixed":
                    w[r.random(n) < 0.12] *= -0.4
                d["weight"] = w
            return d

        def build(opts, seeds, with_cfit=False):
            with quiet():
                cfg = cards.load(card, extra_data=opts)
                amp = cfg.get_amplitude()
            sets = []
            for j_, sd in enumerate(seeds):
                r = np.random.default_rng(sd)
                # the second data set carries event weights and (mixed-sign) phase-space weights
                sets.append((toy(cfg, 61, r, with_cfit, weighted="positive" if j_ else None), toy(cfg, 150, r, with_cfit, weighted="mixed" if j_ else None),
                             None if with_cfit else toy(cfg, 23, r)))
            return cfg, amp, sets

        def evaluate(cfg, amp, dset, points, batch):
            out = []
            with quiet():
                fcn = cfg.get_fcn([[dset[0]], [dset[1]], [dset[2]], None], batch=batch)
                for p in points:
                    amp.set_params(p)
                    try:
                        val = float(fcn({}))
                    except TypeError:
                        val = None  # lazy data: declined path
                    v2, g = fcn.nll_grad({})
                    out.append((val, float(v2), dict(zip(amp.vm.trainable_vars, np.asarray(g, dtype=float)))))
            del fcn
            gc.collect()
            return out

        seeds = [[ctx.seed, i, 1], [ctx.seed, i, 2]]
        try:
            cfg0, amp0, sets0 = build({"bg_weight": 0.3}, seeds)
            p1 = cards.random_params(amp0, (ctx.seed, i))
            amp0.set_params(p1)
            p1 = {k: float(v) for k, v in amp0.get_params().items()}
            points = [p1, couplings_changed(p1, (ctx.seed, i, 2)), couplings_changed(p1, (ctx.seed, i, 3))]
            ref = [evaluate(cfg0, amp0, s, points, 50) for s in sets0]
        except Exception as e:
            ctx.count("likelihood_base_failed")
            ctx.note("likelihood base failed %r" % (e,))
            continue

        def compare(name, opts, base_ref, with_cfit=False, batch=50):
            monitor = "likelihood " + name
            try:
                cfg, amp, sets = build(opts, seeds, with_cfit)
                if set(amp.get_params()) != set(p1):
                    ctx.count("skipped_param_names_differ:" + name)
                    return
                res = [evaluate(cfg, amp, s, points, batch) for s in sets]  # second set built after the first FCN was collected
            except Exception as e:
                ctx.violation(monitor, ctx.exc_witness(e, config=card["config"], opts=opts), mechanism=monitor + " raises")
                return
            worst = 0.0
            where = None
            for si, (rs, bs) in enumerate(zip(res, base_ref)):
                for pi, ((val, v2, g), (bval, bv2, bg_)) in enumerate(zip(rs, bs)):
                    cands = [abs(v2 - bv2) / (1e-9 * (abs(bv2) + 1.0))]
                    if val is not None and bval is not None:
                        cands.append(abs(val - bval) / (1e-9 * (abs(bval) + 1.0)))
                        cands.append(abs(val - v2) / (1e-9 * (abs(v2) + 1.0)))
                    gmax = max(abs(x) for x in bg_.values()) if bg_ else 0.0
                    for k_ in bg_:
                        cands.append(abs(g.get(k_, np.nan) - bg_[k_]) / (1e-7 * (abs(bg_[k_]) + 1e-3 * gmax + 1e-12)))
                    m = max(cands)
                    if not (m <= worst):
                        worst, where = m, {"data_set": si, "point": pi, "value": (val, v2), "value_default": (bval, bv2)}
            ctx.dev(monitor + " (dev/tol)", worst, 1.0)
            ctx.check(monitor, worst <= 1.0, lambda: {"config": card["config"], "opts": opts, "param_key": [ctx.seed, i], "worst_ratio": worst, "where": where},
                      mechanism=monitor + kf_cpl)
            ctx.case(cards.card_digest_key(card) + ("lik", name), nontrivial=True)

        compare("cached_int", {"bg_weight": 0.3, "cached_int": True}, ref)
        compare("cached_amp", {"bg_weight": 0.3, "cached_amp": True}, ref)
        compare("other batch size", {"bg_weight": 0.3}, ref, batch=17)
        compare("lazy_call", {"bg_weight": 0.3, "lazy_call": True}, ref, batch=50)
        # cfit vs cfit + cached_amp
        try:
            cfgc, ampc, setsc = build({"model": "cfit", "bg_frac": 0.2}, seeds, with_cfit=True)
            refc = [evaluate(cfgc, ampc, s, points, 50) for s in setsc]
            compare("cfit+cached_amp", {"model": "cfit", "bg_frac": 0.2, "cached_amp": True}, refc, with_cfit=True)
        except Exception as e:
            ctx.violation("likelihood cfit+cached_amp", ctx.exc_witness(e, config=card["config"]), mechanism="cfit base raises")
        if i < ctx.nshards:
            ctx.sample({"card": cards.short(card), "likelihood_models": ["cached_int", "cached_amp", "lazy_call", "cfit+cached_amp"],
                        "nll_default_point0": ref[0][0][1]}, limit=3)

    ctx.count('seconds_likelihood', int(_t.time() - _t0))
    # ------------------------------------------------------------ synthetic einsum programs
    from tf_pwa.einsum import einsum as lib_einsum

    n_syn = ctx.pick(400, 20000)
    letters = "abcdefghij"
    for i, rng in ctx.cases("einsum_synthetic", n_syn):
        n_ops = int(rng.integers(1, 5))
        pool = list(letters[: int(rng.integers(2, 7))])
        size = {c: int(rng.choice([1, 1, 2, 3, 4])) for c in pool}
        nb = int(rng.choice([1, 2, 5]))
        ops = []
        for _ in range(n_ops):
            k = int(rng.integers(0, min(4, len(pool)) + 1))
            idx = list(rng.choice(pool, size=k, replace=False)) if k else []
            ops.append(idx)
        used = sorted({c for o in ops for c in o})
        if not used:
            continue
        n_out = int(rng.integers(0, len(used) + 1))
        out = list(rng.permutation(used)[:n_out])
        style = rng.random()
        if style < 0.3:  # builder style: leading ..., upper-case aligned letters
            up = {c: c.upper() for c in out[: int(rng.integers(0, len(out) + 1))]} if out else {}
            extra_ops = [[c, C] for c, C in up.items()]
            for c, C in up.items():
                size[C] = size[c]
            out = [up.get(c, c) for c in out]
            expr = ",".join("..." + "".join(o) for o in ops + extra_ops) + "->..." + "".join(out)
            arrs = [rng.normal(size=[nb] + [size[c] for c in o]) + 1j * rng.normal(size=[nb] + [size[c] for c in o]) for o in ops + extra_ops]
            np_expr = expr
        else:
            expr = ",".join("".join(o) for o in ops) + "->" + "".join(out)
            arrs = [rng.normal(size=[size[c] for c in o]) for o in ops]
            np_expr = expr
            if any(len(o) == 0 for o in ops):
                continue
        try:
            ref = np.einsum(np_expr, *arrs)
        except Exception:
            continue
        try:
            got = np.asarray(lib_einsum(expr, *[tf.constant(a) for a in arrs]))
        except Exception:
            ctx.count("synthetic_einsum_declined")
            continue
        ok = got.shape == ref.shape and (ref.size == 0 or np.max(np.abs(got - ref)) <= 1e-10 * (np.max(np.abs(ref)) + 1e-300))
        ctx.check("synthetic einsum == numpy.einsum", bool(ok), lambda: {"expr": expr, "shapes": [a.shape for a in arrs], "lib_shape": got.shape, "ref_shape": ref.shape},
                  mechanism="tf_pwa.einsum.einsum value")
        ctx.case(("syn", expr, tuple(a.shape for a in arrs)), nontrivial=len(arrs) >= 3 or any(1 in a.shape for a in arrs))
        if i < 3:
            ctx.sample({"einsum_program": expr, "shapes": [list(a.shape) for a in arrs]}, limit=6)
