"""C19 - a configuration determines the model deterministically and completely."""
import copy
import json
import os
import subprocess
import sys

import numpy as np

from ..gen import cards
from .c01 import tolerance
from .c02 import permuted_config

LEVEL = "exploration"
SHARDS = {"quick": 12, "thorough": 16}
TIMEOUT = {"quick": 600, "thorough": 3000}
THREADS = {"quick": 1, "thorough": 1}
RULE = (
    "per case: one generated decay card (3- or 4-body, 1-2 candidates per resonance slot, INCLUDING candidates that violate the "
    "spin-parity selection rules, per-decay options, constraints: fixed/float masses with ranges, var_equal, gauss_constr): "
    "(a) k repeated loads in one process (+ a fresh subprocess for a share of cases) give identical chains, parameter names, free "
    "set, bounds and ties; (b) every chain leads from the declared parent to the declared finals through declared decays; (c) the "
    "surviving chain set equals the reference enumeration filtered by the brute-force selection rules; (d) alias forms (m0/mass, "
    "g0/width, Par/P, $include by dict and by YAML file, candidate list vs expanded decay lists, key-order permutations) give the "
    "same chains, quantum numbers, parameter names and - after set_params by name - the same density; (e) export -> load "
    "reproduces chains and quantum numbers.  non-trivial = >=2 reference chains or a forbidden candidate; distinct = card key."
)
ASSUMPTIONS = [
    "values of randomly initialised parameters are not compared, only names and constraints (the loader draws them)",
    "export comparison: chains (as strings, same order) and J, P, C, spins of every particle, p_break/c_break of every decay; masses/widths/models are outside the property's export claim",
    "reference selection rules as in C13 (vh/oracle/selection.py)",
]
REQUIRE = {
    "monitors": {"repeated load identical": 30, "chains lead parent -> finals through declared decays": 30, "surviving chains == reference selection": 30,
                 "alias form equivalent": 40, "export -> load reproduces chains and quantum numbers": 20},
    "min_nontrivial": {"quick": 30, "thorough": 400},
    "cover": {"nbody": [3, 4], "has_forbidden_candidate": ["True"]},
}
LEVEL_TEXT = ("Runtime monitors on ConfigLoader(dict): repeated-load determinism, structural soundness of every chain, completeness and "
              "soundness of the selection-rule cut against a brute-force reference, equivalence of documented alias/include forms (names, "
              "constraints and densities) and export/import round trips, over a grammar of generated cards.")
TECHNIQUE = "differential runtime monitor over re-declared configurations + reference enumeration of allowed chains"


def fingerprint(cfg):
    amp = cfg.get_amplitude()
    dg = cfg.get_decay()
    chains = [sorted((str(d.core), tuple(sorted(str(o) for o in d.outs))) for d in c) for c in dg]
    return {
        "chains": chains,
        "param_names": sorted(amp.get_params()),
        "free": sorted(amp.vm.trainable_vars),
        "bounds": sorted((k, tuple(None if x is None else round(float(x), 12) for x in v)) for k, v in cfg.bound_dic.items()),
        "ties": sorted(sorted(g) for g in amp.vm.same_list),
        "gauss": sorted((k, tuple(round(float(x), 12) for x in v)) for k, v in cfg.gauss_constr_dic.items()),
        "qn": sorted((str(p), float(p.J), int(p.P), None if p.C is None else int(p.C), tuple(float(s) for s in p.spins)) for c in dg for p in c.get_all_particles()),
    }


def add_constraints(card, rng):
    """float masses / widths with ranges, ties, gaussian constraints - by documented config keys"""
    cfg = card["config"]
    res = card["meta"]["resonances"]
    for r in res:
        if r["j2"] % 2 == 0 and rng.random() < 0.3:
            # a declared C quantum number: without c_break: False on a decay it selects nothing, but it must survive export/import
            cfg["particle"][r["name"]]["C"] = int(rng.choice([-1, 1]))
        if r["model"] == "one":
            continue  # no mass / width parameters
        u = rng.random()
        pc = cfg["particle"][r["name"]]
        if u < 0.25:
            pc["float"] = "mg"
            pc["m_min"], pc["m_max"] = r["m0"] - 0.1, r["m0"] + 0.1
        elif u < 0.4:
            pc["float"] = "m"
            pc["gauss_constr"] = {"m": 0.01}
    return card


def run(ctx):
    import contextlib
    import io

    import yaml

    n_cards = ctx.pick(110, 3000)
    for i, rng in ctx.cases("cards", n_cards, budget_s=ctx.pick(450, 2500)):
        tag = "_c19s%di%d" % (ctx.seed, i)
        nb = 3 if i % 3 else 4
        try:
            g = cards.CardGen(rng, tag, nbody=nb, n_chains=(1, 3), res_per_slot=(1, 2), final_j2=(0, 0, 1, 2), allow_forbidden=True,
                              p_break_prob=0.4, models=("default", "BW", "BWR2", "one"))
            card = add_constraints(g.make(), rng)
        except RuntimeError:
            ctx.count("card_generation_failed")
            continue
        meta = card["meta"]
        ref_allowed = sorted(c["decays"] for c in meta["ref_chains"] if c["allowed"])
        has_forbidden = any(not c["allowed"] for c in meta["ref_chains"])
        desc = lambda: {"config": card["config"], "reference_chains": [{"decays": c["decays"], "allowed": c["allowed"]} for c in meta["ref_chains"]]}
        ctx.context = {"card": cards.short(card), "index": i}

        def load(cfgd, **kw):
            with contextlib.redirect_stdout(io.StringIO()):
                return cards.load({"config": cfgd, "meta": meta}, **kw)

        try:
            c0 = load(card["config"])
            f0 = fingerprint(c0)
        except Exception as e:
            ctx.violation("surviving chains == reference selection", ctx.exc_witness(e, **desc()), mechanism="ConfigLoader raises on a card with allowed chains")
            continue
        # known-finding classes (per-particle state taken from the first declared decay: default bw_l, creators[0]); decided
        # from the card structure only, shared with C02
        kf = cards.declaration_order_class(meta)
        ctx.case(cards.card_digest_key(card), nontrivial=len(ref_allowed) >= 2 or has_forbidden)
        ctx.covered("nbody", nb)
        ctx.covered("has_forbidden_candidate", has_forbidden)
        # (a) repeated loads
        same = True
        for _ in range(2):
            f1 = fingerprint(load(card["config"]))
            if f1 != f0:
                same = False
                diff = [k for k in f0 if f0[k] != f1[k]]
        ctx.check("repeated load identical", same, lambda: dict(desc(), differing=diff), mechanism="repeated load differs")
        if i % 10 == 0:
            # fresh process (hash seeds / dict orders / caches)
            p = os.path.join(os.getcwd(), "card_%d.json" % i)
            with open(p, "w") as fh:
                json.dump(card["config"], fh)
            code = ("import sys,json;sys.path.insert(0,%r);from vh import bootstrap;bootstrap.init(0);import contextlib,io\n"
                    "from vh.gen import cards;from vh.checks.c19 import fingerprint\n"
                    "cfg=json.load(open(%r))\n"
                    "with contextlib.redirect_stdout(io.StringIO()):\n"
                    "    c=cards.load({'config':cfg,'meta':{}});f=fingerprint(c)\n"
                    "print('FP'+json.dumps(f))\n") % (os.path.dirname(os.path.dirname(os.path.dirname(os.path.abspath(__file__)))), p)
            try:
                env = dict(os.environ, PYTHONHASHSEED=str(int(rng.integers(1, 1000))))
                out = subprocess.run([sys.executable, "-c", code], capture_output=True, text=True, timeout=120, env=env)
                line = [x for x in out.stdout.splitlines() if x.startswith("FP")]
                if line:
                    f2 = json.loads(line[0][2:])
                    norm = lambda f: json.loads(json.dumps(f))
                    ctx.check("repeated load identical", norm(f0) == f2, lambda: dict(desc(), differing=[k for k in f0 if norm(f0)[k] != f2[k]]),
                              mechanism="fresh-process load differs")
                else:
                    ctx.count("fresh_process_no_output")
            except subprocess.TimeoutExpired:
                ctx.count("fresh_process_timeout")
        # (b) structure of every chain
        top = meta["top"]["name"]
        fin = sorted(f["name"] for f in meta["finals"])
        declared = set()
        for c in meta["ref_chains"]:
            declared.update(c["decays"] if isinstance(c["decays"][0], tuple) else [tuple(x) for x in c["decays"]])
        declared = {(m, tuple(d)) for m, d in declared}
        okb = True
        why = ""
        for ch in f0["chains"]:
            kids = {m: d for m, d in ch}
            mothers = set(kids)
            daughters = [x for d in kids.values() for x in d]
            tops = [m for m in mothers if m not in daughters]
            leaves = sorted(x for x in daughters if x not in mothers)
            if tops != [top] or leaves != fin or any((m, tuple(d)) not in declared for m, d in ch) or any(len(d) != 2 for d in kids.values()):
                okb = False
                why = repr(ch)
        ctx.check("chains lead parent -> finals through declared decays", okb, lambda: dict(desc(), bad_chain=why), mechanism="chain structure")
        # (c) selection
        got = sorted([list(map(list, [(m, list(d)) for m, d in ch])) for ch in f0["chains"]])
        want = sorted([[[m, list(d)] for m, d in ch] for ch in ref_allowed])
        ctx.check("surviving chains == reference selection", got == want,
                  lambda: dict(desc(), library_chains=got, reference_allowed=want), mechanism="selection-rule cut: " + ("allowed chain dropped" if len(got) < len(want) else "forbidden chain kept or mismatch"))
        # (d) alias forms
        amp0 = c0.get_amplitude()
        amp0.set_params(cards.random_params(amp0, (ctx.seed, i)))
        params = {k: float(v) for k, v in amp0.get_params().items()}
        ps = cards.events(card, 24, rng, classes=False)
        try:
            dens0, _ = cards.density(c0, ps)
        except Exception as e:
            ctx.violation("alias form equivalent", ctx.exc_witness(e, **desc()), mechanism="density raises")
            continue

        def alias_check(name, cfgd, share=None):
            try:
                with contextlib.redirect_stdout(io.StringIO()):
                    from tf_pwa.config_loader import ConfigLoader

                    c1 = ConfigLoader(copy.deepcopy(cfgd), share_dict=share) if share is not None else ConfigLoader(copy.deepcopy(cfgd))
                    c1.get_amplitude()
                f1 = fingerprint(c1)
                keys = ["chains", "param_names", "free", "bounds", "ties", "gauss", "qn"]
                if name == "key order / candidate order":
                    # the order of the chain list may change with the declaration order; compare as sets
                    # ... and fix_chain_idx=0 fixes the coupling of whichever chain is declared first: the free set legitimately moves with it
                    f1c, f0c = dict(f1, chains=sorted(f1["chains"]), free=None), dict(f0, chains=sorted(f0["chains"]), free=None)
                else:
                    f1c, f0c = f1, f0
                diff_ = [k for k in keys if f1c[k] != f0c[k]]
                ok = not diff_
                dens_dev = None
                if ok:
                    c1.get_amplitude().set_params(params)
                    d1, _ = cards.density(c1, ps)
                    tol = tolerance(dens0)
                    dens_dev = float(np.max(np.abs(d1 - dens0) / tol))
                    ok = dens_dev <= 1.0
                ctx.check("alias form equivalent", ok, lambda: dict(desc(), alias=name, alias_config=cfgd, differing=diff_, density_ratio=dens_dev), mechanism="alias form: " + name + (kf if name.startswith("key order") or name.startswith("candidate list") else ""))
            except Exception as e:
                ctx.violation("alias form equivalent", ctx.exc_witness(e, alias=name, alias_config=cfgd, **desc()), mechanism="alias form raises: " + name)

        # m0/mass, g0/width, Par/P
        a1 = copy.deepcopy(card["config"])
        for k, v in a1["particle"].items():
            if isinstance(v, dict) and not k.startswith("$"):
                if "mass" in v:
                    v["m0"] = v.pop("mass")
                if "width" in v:
                    v["g0"] = v.pop("width")
                if "P" in v:
                    v["Par"] = v.pop("P")
        alias_check("m0/g0/Par", a1)
        # $include via share_dict and via YAML file
        a2 = copy.deepcopy(card["config"])
        inc = {}
        for k in list(a2["particle"]):
            if isinstance(a2["particle"][k], dict) and not k.startswith("$"):
                inc[k] = a2["particle"].pop(k)
        a2["particle"]["$include"] = "res_inc"
        alias_check("$include (share_dict)", a2, share={"res_inc": inc})
        if i % 3 == 0:
            fn = os.path.join(os.getcwd(), "inc_%d.yml" % i)
            with open(fn, "w") as fh:
                yaml.safe_dump(json.loads(json.dumps(inc)), fh)
            a3 = copy.deepcopy(a2)
            a3["particle"]["$include"] = fn
            alias_check("$include (yaml file)", a3)
        # $include of a table whose entries are overridden locally (documented: the local definition wins), with the overridden
        # quantity spelled with the same or the other alias in the two places; expanded form = the original card
        a5 = copy.deepcopy(card["config"])
        inc5 = {}
        other = {"mass": "m0", "width": "g0", "P": "Par"}
        n_over = 0
        for k in list(a5["particle"]):
            v = a5["particle"][k]
            if isinstance(v, dict) and not k.startswith("$") and k != top and k not in fin:
                base = copy.deepcopy(v)
                local = {}
                for key, newv in (("mass", lambda x: x + 0.05), ("width", lambda x: x * 2.0), ("P", lambda x: -x)):
                    if key in base and rng.random() < 0.6:
                        spell_inc = key if rng.random() < 0.5 else other[key]
                        spell_loc = key if rng.random() < 0.5 else other[key]
                        local[spell_loc] = base.pop(key)
                        base[spell_inc] = newv(local[spell_loc])
                        n_over += 1
                inc5[k] = base
                if local:
                    a5["particle"][k] = local
                else:
                    del a5["particle"][k]
        if n_over:
            a5["particle"]["$include"] = "res_inc5"
            inc5_before = copy.deepcopy(inc5)
            share5 = {"res_inc5": inc5}
            alias_check("$include + local override", a5, share=share5)
            # history: ANOTHER configuration that includes the same in-memory table without overriding anything (the baseline beside a
            # hypothesis, the second member of a MultiConfig), loaded with the same share_dict object afterwards, must be the model of the
            # table as it was defined
            try:
                a6 = copy.deepcopy(card["config"])
                for k in list(a6["particle"]):
                    if k in inc5:
                        del a6["particle"][k]
                a6["particle"]["$include"] = "res_inc5"
                with contextlib.redirect_stdout(io.StringIO()):
                    from tf_pwa.config_loader import ConfigLoader

                    try:
                        c_ref = ConfigLoader(copy.deepcopy(a6), share_dict={"res_inc5": copy.deepcopy(inc5_before)})
                        c_ref.get_amplitude()
                    except RuntimeError:
                        # the table as defined (flipped parities, shifted masses) need not describe an allowed decay: nothing to compare
                        ctx.count("shared_table_history_skipped(table alone gives no chain)")
                        raise StopIteration
                    c_after = ConfigLoader(copy.deepcopy(a6), share_dict=share5)
                    c_after.get_amplitude()
                fa_, fr_ = fingerprint(c_after), fingerprint(c_ref)
                diff6 = [k for k in ("chains", "param_names", "free", "bounds", "ties", "gauss", "qn") if fa_[k] != fr_[k]]
                ctx.check("alias form equivalent", not diff6 and inc5 == inc5_before,
                          lambda: dict(desc(), differing=diff6, shared_table_modified=inc5 != inc5_before, table_before=inc5_before, table_after=inc5),
                          mechanism="$include of a shared in-memory table after another configuration overrode its entries locally")
            except StopIteration:
                pass
            except Exception as e:
                ctx.violation("alias form equivalent", ctx.exc_witness(e, **desc()), mechanism="alias form raises: shared table history")
        # candidate lists vs expanded decay lists
        a4 = copy.deepcopy(card["config"])
        slots = {k: v for k, v in a4["particle"].items() if isinstance(v, list)}
        if slots:
            import itertools

            newdec = {}
            for mother, entries in a4["decay"].items():
                ents = entries if isinstance(entries[0], list) else [entries]
                for m_ in slots.get(mother, [mother]):
                    for ent in ents:
                        names_ = [x for x in ent if not isinstance(x, dict)]
                        optd = [x for x in ent if isinstance(x, dict)]
                        for combo in itertools.product(*[slots.get(x, [x]) for x in names_]):
                            newdec.setdefault(m_, []).append(list(combo) + copy.deepcopy(optd))
            a4["decay"] = newdec
            for k in slots:
                del a4["particle"][k]
            alias_check("candidate list expanded", a4)
        # decay options spread over several mappings ([R, D, {a: 1}, {b: 2}], the YAML flow style "[R, D, a: 1, b: 2]") == one mapping
        a6 = copy.deepcopy(card["config"])
        n_split = 0
        for mother, entries in a6["decay"].items():
            ents = entries if isinstance(entries[0], list) else [entries]
            for ent in ents:
                opts_ = [x for x in ent if isinstance(x, dict)]
                merged_ = {}
                for o_ in opts_:
                    merged_.update(o_)
                # every decay gets an explicit (harmless) second option so that two mappings exist: has_barrier_factor True is the default
                merged_.setdefault("has_barrier_factor", True)
                if len(merged_) >= 2:
                    ent[:] = [x for x in ent if not isinstance(x, dict)] + [{k_: v_} for k_, v_ in merged_.items()]
                    n_split += 1
        if n_split:
            alias_check("decay options split over several mappings", a6)
        alias_check("key order / candidate order", permuted_config(card["config"], rng))
        # (e) export -> load
        for when in ("after get_amplitude",) + (("before get_amplitude",) if i % 4 == 0 else ()):
            try:
                with contextlib.redirect_stdout(io.StringIO()):
                    from tf_pwa.config_loader import ConfigLoader

                    src = c0 if when == "after get_amplitude" else ConfigLoader(copy.deepcopy(card["config"]))
                    exported = src.get_decay().as_config()
                    exp2 = copy.deepcopy(exported)
                    # rename to avoid the name-keyed caches of the library (harness hygiene, see DESIGN section 2)
                    c2 = ConfigLoader(exp2)
                    dg2 = c2.get_decay()
                dg = src.get_decay()
                ch_a = [str(c) for c in dg]
                ch_b = [str(c) for c in dg2]
                qa = {str(p): (float(p.J), int(p.P), None if p.C is None else int(p.C), tuple(float(s) for s in p.spins)) for c in dg for p in c.get_all_particles()}
                qb = {str(p): (float(p.J), int(p.P), None if p.C is None else int(p.C), tuple(float(s) for s in p.spins)) for c in dg2 for p in c.get_all_particles()}
                da = {str(d): (bool(d.p_break), bool(d.c_break)) for c in dg for d in c}
                db = {str(d): (bool(d.p_break), bool(d.c_break)) for c in dg2 for d in c}
                ctx.check("export -> load reproduces chains and quantum numbers", ch_a == ch_b and qa == qb and da == db,
                          lambda: dict(desc(), when=when, chains_a=ch_a, chains_b=ch_b, qn_diff=[k for k in qa if qa.get(k) != qb.get(k)], dec_diff=[k for k in da if da.get(k) != db.get(k)]),
                          mechanism="as_config round trip (%s)" % when)
            except Exception as e:
                ctx.violation("export -> load reproduces chains and quantum numbers", ctx.exc_witness(e, when=when, **desc()), mechanism="as_config round trip raises (%s)" % when)
        if i < ctx.nshards:
            ctx.sample({"config": card["config"], "reference_chains": [{"decays": c["decays"], "allowed": c["allowed"]} for c in meta["ref_chains"]],
                        "library_chains": f0["chains"]}, limit=2)
