"""C15 - line shapes equal their documented formulas."""
import math

import numpy as np

from ..gen import cards
from ..oracle import lineshape as ls
from .c15_more import MORE_MODELS, run_more

LEVEL = "exploration"
SHARDS = {"quick": 8, "thorough": 16}
TIMEOUT = {"quick": 500, "thorough": 2400}
THREADS = {"quick": 1, "thorough": 1}
RULE = (
    "per case: random (m0, Gamma0, daughter masses, L or resonance spin, barrier radius d) and a mass grid above threshold "
    "(below it for BWR2/BWR_below/Flatte): (1) bare functions of breit_wigner.py (BW, BWR, BWR2, BWR_normal, Gamma, Gamma2, GS, "
    "Bprime, Bprime_q2, Bprime_polynomial, get_bprime_coeff; L=0..8) vs a NumPy transcription and the generic clauses; (2) "
    "Particle.__call__(m) of every registered model with a documented closed formula, built through ConfigLoader cards; (3) "
    "sympy denominators of every model that offers one (inherited ones included) evaluated numerically vs 1/numeric shape; (4) 17 more registered "
    "models against their docstrings (LASS, FlatteGen/Flatte2 with every documented option, KMatrixSingleChannel, KmatrixSimple, MultiBW, the "
    "interpolation family vs numpy.interp / SciPy CubicSpline, PCHIP, barycentric Lagrange, histogram steps; node identity, cubic reproduction, "
    "monotonicity).  non-trivial = L>=1 or model with running width; distinct = "
    "(model, L, parameter draw)."
)
ASSUMPTIONS = [
    "reference formulas transcribed from the docstrings (vh/oracle/lineshape.py + this file), Blatt-Weisskopf from the reverse-Bessel recurrence",
    "MultiBWR has no closed formula in its documentation: judged by identities (one unit coefficient equals BWR2 x barrier, linearity, zero coefficient)",
    "tolerance 1e-10 relative to |R| (1e-8 for sympy/mpmath evaluations)",
    "second part (c15_more.py): LASS, FlatteGen, Flatte2 (all documented options), KMatrixSingleChannel, KmatrixSimple, MultiBW and the interpolation "
    "family (interp, interp_c, linear_npy, linear_txt, spline_c, spline_c_idx, interp_lagrange, interp1d3, interp_hist, hist_idx, sppchip) against "
    "NumPy/SciPy transcriptions of their docstrings; the interpolation models are registered by importing tf_pwa.amp.interpolation",
    "not judged: Kmatrix, KMatrixSplitLS, interp_l3 (docstring gives no formula or leaves its symbols undefined), Kpi_Swave / pipi_Swave "
    "(documentation refers to external AmpGen sources that are not available offline); masses exactly on an interpolation point or bin edge "
    "(half-open conventions are not documented)",
]
REQUIRE = {
    "monitors": {"bare BW family == formula": 30, "generic BW clauses": 30, "barrier factors": 30, "model == documented formula": 40,
                 "sympy denominator == 1/shape": 8, "model == documented formula (more models)": 40, "interpolant passes through its points": 10,
                 "sppchip monotone in each interval": 2},
    "cover": {"model": ["BW", "default", "BWR2", "BWR_below", "BWR_normal", "BWR_coupling", "BWR_LS", "BWR_LS2", "MultiBWR", "GS_rho",
                        "Flatte", "FlatteC", "one", "exp", "exp_com", "x"] + MORE_MODELS, "BWR_LS_waves": [2, 3], "bw_l": ["explicit 0", "from the decay"],
              "interp_with_bound": [True, False], "interp_grid": ["uniform", "non-uniform"]},
    "min_nontrivial": 60,
}
LEVEL_TEXT = ("Differential runtime monitor: the bare line-shape/barrier functions and Particle.__call__(m) of every registered model with a "
              "documented formula or defining statement (33 models, obtained from ConfigLoader cards) are compared with NumPy/SciPy transcriptions "
              "of the docstrings on random parameter sets and mass grids; symbolic denominators are evaluated and compared with the numeric shapes.")
TECHNIQUE = "differential runtime monitor vs NumPy transcription of the documented formulas"
KF_INHERITED_DOM = "sympy denominator inherited from the plain BWR particle by a model with another shape (BWR_normal, GS_rho, LASS)"

MODELS = ["BW", "default", "BWR2", "BWR_below", "BWR_normal", "BWR_coupling", "BWR_LS", "BWR_LS2", "MultiBWR", "GS_rho", "Flatte", "FlatteC",
          "one", "exp", "exp_com", "x"]


def cdev(a, b):
    a = np.asarray(a)
    b = np.asarray(b)
    if a.shape != b.shape:
        a = np.broadcast_to(a, b.shape) if a.size in (1, b.size) else a
    if a.shape != b.shape:
        return np.inf
    if not np.all(np.isfinite(a)):
        return np.inf
    return float(np.max(np.abs(a - b) / (np.abs(b) + 1e-300)))


def gamma2_ref(m, g0, q2, q02, L, m0, d):
    """Gamma(m) continued to q^2<0: (q2/q02)^L sqrt(q2/q02) (m0/m) P_L(z0)/P_L(z)"""
    r = (q2 / q02).astype(complex)
    return g0 * r**L * np.sqrt(r) * (m0 / m) * ls.theta_poly_q2(L, q02 * d * d) / ls.theta_poly_q2(L, q2 * d * d)


def ad_hoc(m0, m_max, m_min):
    return m_min + (m_max - m_min) / 2 * (1 + np.tanh((m0 - (m_max + m_min) / 2) / (m_max - m_min)))


def gs_ref(m, m0, g0, q, q0, L, d, mp1=0.13957039, mp2=0.1349768):
    sm = mp1 + mp2
    k = lambda mm: ls.q_of(mm, mp1, mp2)
    h = lambda mm: 2 / math.pi * k(mm) / mm * np.log((mm + 2 * k(mm)) / sm)
    k0 = k(m0)
    dh = h(m0) * (1 / (8 * k0**2) - 1 / (2 * m0**2)) + 1 / (2 * math.pi * m0**2)
    f = g0 * m0**2 / k0**3 * (k(m) ** 2 * (h(m) - h(m0)) + (m0**2 - m**2) * k0**2 * dh)
    D = 3 / math.pi * (sm**2 / 4) / k0**2 * np.log((m0 + 2 * k0) / sm) + m0 / (2 * math.pi * k0) - (sm**2 / 4) * m0 / (math.pi * k0**3)
    gam = ls.gamma_run(m, m0, g0, q, q0, L, d)
    return (1 + D * g0 / m0) / ((m0**2 - m**2) + f - 1j * m0 * gam)


def run(ctx):
    import tensorflow as tf

    from tf_pwa import breit_wigner as bw
    from tf_pwa.amp.core import Particle

    T = lambda x: tf.constant(np.asarray(x, dtype=np.float64))

    # ------------------------------------------------------------ (1) bare functions
    n_b = ctx.pick(120, 2500)
    for i, rng in ctx.cases("bare", n_b):
        L = i % 9
        m1, m2 = float(rng.choice([0.13957, 0.49368, 0.93827, 0.0])), float(rng.uniform(0.1, 1.0))
        m0 = m1 + m2 + float(rng.uniform(0.05, 1.5))
        g0 = float(rng.uniform(0.005, 0.5))
        d = float(rng.choice([3.0, 3.0, 1.0, 5.0]))
        m = np.concatenate([np.linspace(m1 + m2 + 1e-3, m0 + 1.5, 40), [m0]])
        q, q0 = ls.q_of(m, m1, m2), ls.q_of(m0, m1, m2)
        q2, q02 = ls.q2_of(m, m1, m2), ls.q2_of(m0, m1, m2)
        desc = {"L": L, "m0": m0, "g0": g0, "m1": m1, "m2": m2, "d": d}
        # scalar parameters as float64 tensors, as the library passes them (tf.cast of a Python float goes through float32)
        m0_, g0_, q0_, q02_ = m0, g0, q0, q02
        m0, g0, q0, q02 = T(m0), T(g0), T(q0), T(q02)
        devs = {
            "BW": cdev(bw.BW(T(m), m0, g0), ls.BW(m, m0_, g0_)),
            "BWR": cdev(bw.BWR(T(m), m0, g0, T(q), q0, L, d), ls.BWR(m, m0_, g0_, m1, m2, L, d)),
            "BWR2": cdev(bw.BWR2(T(m), m0, g0, T(q2), q02, L, d), ls.BWR(m, m0_, g0_, m1, m2, L, d)),
            "BWR_normal": cdev(bw.BWR_normal(T(m), m0, g0, T(q2), q02, L, d),
                               np.sqrt(m0_ * ls.gamma_run(m, m0_, g0_, q, q0_, L, d)) * ls.BWR(m, m0_, g0_, m1, m2, L, d)),
            "Gamma": cdev(bw.Gamma(T(m), g0, T(q), q0, L, m0, d), ls.gamma_run(m, m0_, g0_, q, q0_, L, d)),
            "Gamma2": cdev(bw.Gamma2(T(m), g0, T(q2), q02, L, m0, d), ls.gamma_run(m, m0_, g0_, q, q0_, L, d).astype(complex)),
        }
        if m0_ > 0.6:  # GS is a rho line shape: nominal mass well above the two-pion threshold
            devs["GS"] = cdev(bw.GS(T(m), m0, g0, T(q), q0, L, d), gs_ref(m, m0_, g0_, q, q0_, L, d))
        # GS: the library casts the documented pion masses (Python floats 0.13957039, 0.1349768) through float32 -> 3e-9 relative
        gs_dev = devs.pop("GS", 0.0)
        ctx.dev("bare GS (tol 1e-6: float32-rounded pion masses)", gs_dev, 1e-6)
        ctx.check("bare BW family == formula", gs_dev < 1e-6, lambda: dict(desc, gs_dev=gs_dev), mechanism="breit_wigner.py function value: GS")
        worst = max(devs.values())
        ctx.dev("bare BW family", worst, 1e-10)
        ctx.check("bare BW family == formula", worst < 1e-10, lambda: dict(desc, devs=devs), mechanism="breit_wigner.py function value: " + max(devs, key=devs.get))
        # generic clauses: Im R > 0, R(m0) = i/(m0 G0), Gamma(m0) = G0
        for name, f in (("BW", lambda mm, qq, qq2: bw.BW(T(mm), m0, g0)), ("BWR", lambda mm, qq, qq2: bw.BWR(T(mm), m0, g0, T(qq), q0, L, d)),
                        ("BWR2", lambda mm, qq, qq2: bw.BWR2(T(mm), m0, g0, T(qq2), q02, L, d))):
            r = np.asarray(f(m, q, q2))
            r0 = np.asarray(f(np.array([m0_]), np.array([q0_]), np.array([q02_])))[0]
            ok = np.all(np.imag(r) > 0) and abs(r0 - 1j / (m0_ * g0_)) < 1e-9 * abs(r0)
            ctx.check("generic BW clauses", bool(ok), lambda: dict(desc, function=name, R_m0=r0, expected=1j / (m0_ * g0_), min_im=float(np.min(np.imag(r)))),
                      mechanism="BW family generic clauses: " + name)
        gm0 = float(np.asarray(bw.Gamma(T([m0_]), g0, T([q0_]), q0, L, m0, d))[0])
        ctx.check("generic BW clauses", abs(gm0 - g0_) < 1e-12, dict(desc, gamma_m0=gm0), mechanism="Gamma(m0)==Gamma0")
        m0, g0, q0, q02 = m0_, g0_, q0_, q02_
        # barrier factors
        qq = np.concatenate([np.linspace(1e-3, 3.0, 25), [q0]])
        bp = np.broadcast_to(np.asarray(bw.Bprime(L, T(qq), q0, d)), qq.shape)
        ref = ls.bprime(L, qq, q0, d)
        poly = np.broadcast_to(np.asarray(bw.Bprime_polynomial(L, T((qq * d) ** 2))), qq.shape)
        coeff = [float(c) for c in bw.get_bprime_coeff(L)]
        poly_c = np.polyval(coeff, (qq * d) ** 2)
        bq2 = np.broadcast_to(np.asarray(bw.Bprime_q2(L, T(qq**2), q0**2, d)), qq.shape)
        below = np.broadcast_to(np.asarray(bw.Bprime_q2(L, T(-(qq**2)), q0**2, d)), qq.shape)
        num = np.broadcast_to(np.asarray(bw.Bprime_num(L, T(qq), d)), qq.shape)
        bdev = {"Bprime": cdev(bp, ref), "Bprime_polynomial": cdev(poly, ls.theta_abs2(L, qq * d)), "get_bprime_coeff": cdev(poly_c, ls.theta_abs2(L, qq * d)),
                "Bprime_q2==Bprime above threshold": cdev(bq2, ref), "Bprime_num": cdev(num, np.sqrt(ls.theta_abs2(L, qq * d)))}
        okb = max(bdev.values()) < 1e-10 and abs(bp[-1] - 1) < 1e-13 and np.all(np.isfinite(below))
        ctx.dev("barrier factors", max(bdev.values()), 1e-10)
        ctx.check("barrier factors", bool(okb), lambda: dict(desc, devs=bdev, at_q0=bp[-1], finite_below=bool(np.all(np.isfinite(below)))),
                  mechanism="barrier factor: " + max(bdev, key=bdev.get))
        bf = np.asarray(bw.barrier_factor([0, L], T(qq), q0, d))
        bf = np.broadcast_to(bf, (2,) + qq.shape) if bf.ndim == 2 else bf
        ctx.check("barrier factors", cdev(bf[1], qq**L * ref) < 1e-10, dict(desc), mechanism="barrier_factor q^L B_L")
        ctx.case(("bare", L, i), nontrivial=L >= 1)
        ctx.covered("L", L)
        if i < 2:
            ctx.sample({"section": "bare", **desc, "m": m[5], "BWR_lib": np.asarray(bw.BWR(T(m[5:6]), m0, g0, T(q[5:6]), q0, L, d))[0], "BWR_ref": ls.BWR(m[5], m0, g0, m1, m2, L, d)})

    # ------------------------------------------------------------ (4) the other registered models with a documented formula
    run_more(ctx)

    # ------------------------------------------------------------ (2) registered models through ConfigLoader
    n_m = ctx.pick(len(MODELS) * 4, len(MODELS) * 60)
    for i, rng in ctx.cases("models", n_m, budget_s=ctx.pick(300, 1800)):
        model = MODELS[i % len(MODELS)]
        tag = "_c15s%di%d" % (ctx.seed, i)
        names = {k: k + tag for k in ("A", "R", "B", "C", "D")}
        mB, mD, mC = float(rng.choice([0.13957, 0.49368, 0.5])), float(rng.choice([0.13957, 0.49368, 0.93827])), float(rng.choice([0.13957, 0.5]))
        below_thr = model in ("BWR2", "BWR_below", "Flatte", "FlatteC") and rng.random() < 0.4
        m0 = (mB + mD - float(rng.uniform(0.02, 0.1))) if below_thr and model in ("BWR2", "BWR_below") else mB + mD + float(rng.uniform(0.1, 1.2))
        g0 = float(rng.uniform(0.02, 0.4))
        MA = max(m0, mB + mD) + mC + float(rng.uniform(0.3, 1.5))
        ls_model = model in ("BWR_LS", "BWR_LS2", "MultiBWR")
        J = 1 if ls_model else int(rng.integers(0, 5))
        part = {"J": J, "P": 1 if ls_model else (-1) ** J, "mass": m0, "width": g0, "model": model}
        # an explicitly configured bw_l (including 0) overrides the orbital angular momentum of the decay in the running width
        bw_l_cfg = None
        if model in ("default", "BWR2", "BWR_normal", "BWR_coupling", "BWR_below") and (i // len(MODELS)) % 3 == 1:
            bw_l_cfg = (MODELS.index(model) * 3 + i // len(MODELS)) % 4  # deterministic rotation: the default model meets bw_l = 0 in the quick tier
            part["bw_l"] = bw_l_cfg
            if not ls_model and J == bw_l_cfg:
                # the configured value must differ from the orbital angular momentum the decay itself would give
                J = (J + 1) % 5
                part["J"], part["P"] = J, (-1) ** J
        ctx.covered("bw_l", "explicit %d" % bw_l_cfg if bw_l_cfg is not None else "from the decay")
        extra = {}
        if model in ("Flatte", "FlatteC"):
            extra["mass_list"] = [[mB, mD], [float(rng.uniform(0.2, 0.6)), float(rng.uniform(0.2, 0.6))]]
            part.update(extra)
        if model == "MultiBWR":
            extra = {"mass_list": [m0, m0 + 0.3], "width_list": [g0, g0 * 1.5]}
            part.update(extra)
        fix_bug1 = None
        # BWR_LS with three partial waves: R(1+) -> B(1-) D(1-) has ls = (0,1),(2,1),(2,2) and two mixing angles
        three_waves = model == "BWR_LS" and (i // len(MODELS)) % 4 in (1, 2)
        if model == "BWR_LS":
            fix_bug1 = bool(i // len(MODELS) % 2 == 0)
            if fix_bug1:
                part["fix_bug1"] = True
        cfg_d = {
            "decay": {names["A"]: [[names["R"], names["C"], {"p_break": True}]], names["R"]: [names["B"], names["D"]] + ([{"p_break": True}] if False else [])},
            "particle": {"$top": {names["A"]: {"J": 1 if ls_model else 0, "P": 1, "mass": MA}},
                         "$finals": {names["B"]: {"J": 1 if ls_model else 0, "P": -1 if ls_model else 1, "mass": mB},
                                     names["C"]: {"J": 0, "P": 1, "mass": mC}, names["D"]: {"J": 1 if three_waves else 0, "P": -1 if ls_model else 1, "mass": mD}},
                         names["R"]: part},
            "data": {"dat_order": [names["B"], names["C"], names["D"]]},
        }
        card = {"config": cfg_d, "meta": {}}
        ctx.context = {"model": model, "config": cfg_d}
        desc = lambda: {"model": model, "config": cfg_d}
        try:
            cfg = cards.load(card)
            amp = cfg.get_amplitude()
            R = cfg.get_decay().get_particle(names["R"])
            setp = {}
            pn = amp.get_params()
            if model in ("Flatte", "FlatteC"):
                gvals = [float(rng.uniform(0.1, 0.8)), float(rng.uniform(0.1, 0.8))]
                setp = {names["R"] + "_g_0": gvals[0], names["R"] + "_g_1": gvals[1]}
            if model == "exp":
                setp = {names["R"] + "_a": float(rng.uniform(-2, 2))}
            if model == "exp_com":
                setp = {names["R"] + "_a": float(rng.uniform(0.1, 2)), names["R"] + "_b": float(rng.uniform(-3, 3))}
            if model == "BWR_LS":
                setp = {names["R"] + "_theta0": float(rng.uniform(0.2, 1.3))}
                if three_waves:
                    setp[names["R"] + "_theta1"] = float(rng.uniform(0.2, 1.3))
            missing = [k for k in setp if k not in pn]
            if missing:
                raise RuntimeError("expected parameters %s not found in %s" % (missing, sorted(pn)))
            amp.set_params(setp)
        except Exception as e:
            ctx.violation("model == documented formula", ctx.exc_witness(e, **desc()), mechanism="model card load raises: " + model)
            continue
        lo = mB + mD
        m = np.linspace(lo + 2e-3, MA - mC - 1e-3, 50)
        if model in ("BWR2", "BWR_below", "Flatte", "FlatteC"):
            m = np.concatenate([np.linspace(max(0.05, lo - 0.3), lo - 1e-3, 10), m])
        q, q2 = ls.q_of(m, mB, mD), ls.q2_of(m, mB, mD)
        q0, q02 = ls.q_of(m0, mB, mD), ls.q2_of(m0, mB, mD)
        L = J if bw_l_cfg is None else bw_l_cfg
        d = 3.0
        try:
            if below_thr and model in ("BWR2", "BWR_below"):
                # Particle.__call__ is a plotting helper that squares a q0 clamped at threshold; the amplitude path supplies
                # |q0|^2 from get_relative_momentum2 (negative below threshold) - use the model's own get_amp with that value
                got = R.get_amp({"m": T(m)}, {"|q|": T(q), "|q|2": T(q2), "|q0|": T(0.0), "|q0|2": T(q02)})
            else:
                got = R(T(m))
        except Exception as e:
            ctx.violation("model == documented formula", ctx.exc_witness(e, **desc()), mechanism="Particle.__call__ raises: " + model)
            continue
        above = m > lo
        mech = "Particle.__call__ vs documented formula: " + model
        if model == "BW":
            ref = ls.BW(m, m0, g0)
        elif model == "default":
            ref = ls.BWR(m, m0, g0, mB, mD, L)
        elif model == "BWR2":
            ref = 1 / (m0**2 - m**2 - 1j * m0 * gamma2_ref(m, g0, q2, np.array(q02), L, m0, d))
        elif model == "BWR_below":
            m0e = m0 if m0 >= lo else ad_hoc(m0, MA - mC, lo)
            ref = 1 / (m0**2 - m**2 - 1j * m0 * gamma2_ref(m, g0, q2, np.array(ls.q2_of(m0e, mB, mD)), L, m0, d))
        elif model == "BWR_normal":
            gam = ls.gamma_run(m, m0, g0, q, q0, L)
            ref = np.sqrt(m0 * gam) / (m0**2 - m**2 - 1j * m0 * gam)
        elif model == "BWR_coupling":
            ref = 1 / (m0**2 - m**2 - 1j * m0 * g0 * (q / m) * q ** (2 * L) * ls.theta_abs2(L, 1.0) / ls.theta_abs2(L, q * d))
        elif model == "GS_rho":
            ref = gs_ref(m, m0, g0, q, q0, L, d)
        elif model in ("Flatte", "FlatteC"):
            sgn = 1 if model == "Flatte" else -1
            tot = 0
            for (ma, mb), g in zip(extra["mass_list"], gvals):
                qq2 = ls.q2_of(m, ma, mb)
                qi = np.where(qq2 >= 0, np.sqrt(np.abs(qq2)) + 0j, 1j * np.sqrt(np.abs(qq2)))
                tot = tot + g * qi / m
            ref = 1 / (m0**2 - m**2 + sgn * 1j * m0 * tot)
        elif model == "one":
            ref = np.ones_like(m) + 0j
        elif model == "exp":
            ref = np.exp(-abs(setp[names["R"] + "_a"]) * m) + 0j
        elif model == "exp_com":
            ref = np.exp(-(setp[names["R"] + "_a"] + 1j * setp[names["R"] + "_b"]) * m * m)
        elif model == "x":
            ref = m + 0j
        elif model == "BWR_LS":
            th = setp[names["R"] + "_theta0"]
            gam_i = [math.cos(th), math.sin(th)]
            lsl = [0, 2]
            if three_waves:
                th1 = setp[names["R"] + "_theta1"]
                gam_i = [math.cos(th), math.sin(th) * math.cos(th1), math.sin(th) * math.sin(th1)]
                lsl = [0, 2, 2]
                ctx.covered("BWR_LS_waves", 3)
            else:
                ctx.covered("BWR_LS_waves", 2)
            g_i = [gi * (q / q0) ** l * ls.bprime(l, q, q0, d) for gi, l in zip(gam_i, lsl)]
            D = m0**2 - m**2 - 1j * m0 * g0 * (q / q0) * (m0 / m) * sum(x * x for x in g_i)
            ref = np.stack([x / D for x in g_i])
            got = np.stack([np.asarray(x) for x in got])
            if not fix_bug1:
                mech = "BWR_LS default (fix_bug1=False) uses m/m0 instead of the documented rho/rho0 = (q/q0)(m0/m)"
        elif model == "BWR_LS2":
            got = np.stack([np.asarray(R(T(m), l=l)[0]) for l in (0, 2)])
            ref = np.stack([ls.BWR(m, m0, g0, mB, mD, l) for l in (0, 2)])
        elif model == "MultiBWR":
            # identities: coefficient (1,0 | 0) -> BWR2(m; m0,g0,l_min) x barrier_l ; linear in the coefficients
            lsl = [(0, 1), (2, 1)]
            q2t = T(q2)
            base = {k: 0.0 for k in pn if "coeff" in k}
            def call(vals):
                pp = dict(base)
                pp.update(vals)
                amp.set_params(pp)
                return np.stack([np.asarray(x) for x in R.get_ls_amp(T(m), lsl, q2t, q02)])
            c00 = names["R"] + "_coeff_0_0"
            c01 = names["R"] + "_coeff_0_1"
            c10 = names["R"] + "_coeff_1_0"
            # tolerance 1e-7: the complex coefficient variables cost ~2e-9 relative on the unchanged tree
            one = call({c00 + "r": 1.0, c00 + "i": 0.0})
            ref1 = ls.BWR(m, m0, g0, mB, mD, 0)
            okA = cdev(one[0], ref1) < 1e-7 and np.max(np.abs(one[1])) < 1e-14
            e2 = call({c01 + "r": 1.0, c01 + "i": 0.0})
            two = call({c00 + "r": 1.0, c00 + "i": 0.0, c01 + "r": 0.7, c01 + "i": 0.4})
            polar = cdev(two[0], one[0] + (0.7 * np.exp(0.4j)) * e2[0]) < 1e-7
            cart = cdev(two[0], one[0] + (0.7 + 0.4j) * e2[0]) < 1e-7
            ref2 = ref2c = None
            pole2 = np.argmax(np.abs(e2[0]))  # the second component peaks near its own mass, the first does not
            okB2 = abs(m[pole2] - (m0 + 0.3)) < 0.2 or m[-1] < m0 + 0.3
            three = call({c10 + "r": 1.0, c10 + "i": 0.0})
            ref3 = ls.BWR(m, m0, g0, mB, mD, 0) * (q / q0) ** 2 * ls.bprime(2, q, q0, d)
            okC = cdev(three[1], ref3) < 1e-7 and np.max(np.abs(three[0])) < 1e-14
            ctx.check("model == documented formula", bool(okA and (polar or cart) and okC),
                      lambda: dict(desc(), identities={"unit coefficient == BWR2": bool(okA), "linear in coefficients": bool(polar or cart), "second ls row == BWR2 x barrier": bool(okC)},
                                   devs=[cdev(one[0], ref1), float(np.max(np.abs(one[1]))), cdev(three[1], ref3)]),
                      mechanism="MultiBWR identities")
            ctx.case(("model", model, i), nontrivial=True)
            ctx.covered("model", model)
            continue
        got = np.asarray(got)
        sel = np.ones(len(m), dtype=bool)
        if model in ("BWR2", "BWR_below"):
            # below threshold the property only claims finiteness for the q^2 variants
            sel = above
            ctx.check("model == documented formula", bool(np.all(np.isfinite(got[~above]))), lambda: dict(desc(), below=got[~above][:3]),
                      mechanism="q^2 variant finite below threshold: " + model)
        dv = cdev(got[..., sel], np.asarray(ref)[..., sel])
        tol_m = 1e-6 if model == "GS_rho" else 1e-10  # GS_rho: float32-rounded pion masses inside the library (3e-9)
        if "fix_bug1=False" not in mech:
            ctx.dev("model vs formula (dev/tol)", dv / tol_m, 1.0)
        ctx.check("model == documented formula", dv < tol_m, lambda: dict(desc(), dev=dv, m=m[-5], lib=got[..., -5], ref=np.asarray(ref)[..., -5], params=setp), mechanism=mech)
        if model in ("BW", "default", "BWR2", "BWR_below") and m0 > lo:
            r0 = np.asarray(R(T([m0])))[0]
            ctx.check("generic BW clauses", abs(r0 - 1j / (m0 * g0)) < 1e-9 * abs(r0) and np.all(np.imag(got[above]) > 0),
                      lambda: dict(desc(), R_m0=r0), mechanism="registered model generic clauses: " + model)
        ctx.case(("model", model, J, i), nontrivial=model not in ("one", "x"))
        ctx.covered("model", model)
        if below_thr:
            ctx.covered("below_threshold_m0", model)
        # (3) symbolic denominators
        if model in ("BW", "default", "BWR_coupling", "BWR_LS", "Flatte", "FlatteC", "BWR2", "BWR_below", "BWR_normal", "GS_rho") and (i // len(MODELS) % 2 == 0 or model in ("BWR_normal", "GS_rho")) \
                and not (below_thr and model in ("BWR2", "BWR_below")):
            try:
                import sympy as sym

                var = R.get_sympy_var()
                if model in ("Flatte", "FlatteC"):
                    expr = R.get_sympy_dom(*var, sheet=2 ** len(extra["mass_list"]) - 1)  # +q_i in every channel, as the numeric shape
                else:
                    expr = R.get_sympy_dom(*var)
                numv = R.get_num_var()
                flat_v, flat_n = [], []

                def flat(a, b):
                    if isinstance(a, (list, tuple)):
                        for x, y in zip(a, b):
                            flat(x, y)
                    else:
                        flat_v.append(a)
                        flat_n.append(float(np.asarray(b)))
                flat(list(var[1:]), list(numv))
                mm = [float(x) for x in m[above][::7]]
                vals = []
                for x in mm:
                    subs = dict(zip(flat_v, flat_n))
                    subs[var[0]] = x
                    vals.append(complex(sym.N(expr.subs(subs), 30)))
                vals = np.array(vals)
                shape = got[..., above][..., ::7]
                if model == "BWR_LS":
                    # R_i = g_i / D : compare D with g_0 / R_0
                    g_0 = math.cos(setp[names["R"] + "_theta0"]) * np.ones(len(mm))
                    want = g_0 / shape[0]
                else:
                    want = 1 / shape
                dvs = cdev(vals, want)
                smech = "sympy denominator: " + model + (" (fix_bug1=False)" if model == "BWR_LS" and not fix_bug1 else "")
                if model in ("BWR_normal", "GS_rho") and type(R).get_sympy_dom is Particle.get_sympy_dom:
                    smech = KF_INHERITED_DOM
                ctx.check("sympy denominator == 1/shape", dvs < 1e-8, lambda: dict(desc(), dev=dvs, sympy=vals[:2], numeric=want[:2]), mechanism=smech)
            except NotImplementedError:
                ctx.count("sympy_dom_not_provided:" + model)
            except Exception as e:
                ctx.violation("sympy denominator == 1/shape", ctx.exc_witness(e, **desc()), mechanism="sympy denominator raises: " + model)
        if i < len(MODELS) and ctx.shard == 0:
            ctx.sample({"section": "models", "model": model, "m0": m0, "g0": g0, "J": J, "m": m[-3], "lib": np.asarray(got)[..., -3], "ref": np.asarray(ref)[..., -3]}, limit=6)
