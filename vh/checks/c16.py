"""C16 - parameter constraints survive every sequence of updates."""
import math

import numpy as np

LEVEL = "exploration"
SHARDS = {"quick": 8, "thorough": 16}
TIMEOUT = {"quick": 500, "thorough": 2400}
THREADS = {"quick": 1, "thorough": 1}
RULE = (
    "per case: one generated history on a fresh VarsManager: configuration phase in the order a configuration applies it "
    "(create real / complex polar+cartesian / shaped Variable objects -> fix/free -> tie (set_same real and complex, sameas, "
    "set_share_r) -> bound) followed by 20-120 random operations {set, set_all dict/list, get_all_dic->set_all, refresh_vars, "
    "rp2xy/xy2rp(_all), std_polar(_all), standard_complex, trans_params, mask_params, temp_params, set_fix/unfix, rename_var}; "
    "every public VarsManager call is logged (call/return + snapshot), an icontract class invariant runs after every method and "
    "an offline sequential model replays the log.  Bound objects: two-sided, lower, upper and custom expression on random points. "
    "non-trivial = history with >=1 tie, >=1 fixed and >=1 complex parameter; distinct = operation sequence digest."
)
RULE += '  Also: chains of overlapping tie statements plus one more statement (a parameter fixed before the ties stays outside the free set); coordinate switches observed through the density of loaded models (incl. CP-violating couplings).'
ASSUMPTIONS = [
    "polar <-> Cartesian switches are not applied to complex parameters whose r or phi is separately tied or bounded; standardising (std_polar, std_polar_all, trans_params(True)) is applied to shared-radius parameters too",
    "values compared exactly for assignments/read-write-all, 1e-12 relative for coordinate switches, slopes vs central finite differences 1e-6",
    "refresh_vars is allowed to change free parameters only",
    "a complex parameter is either tied as a whole (set_same cplx / sameas) or shares its radius (set_share_r), not both: the combination is not generated",
]
REQUIRE = {
    "monitors": {"invariant: VarsManager structure (icontract)": 500, "model: fixed parameters change only when assigned": 200,
                 "model: tied parameters read equal": 200, "model: read-all/write-all is the identity": 30,
                 "model: coordinate switch preserves the complex value": 50, "model: std_polar gives r>=0, -pi<=phi<pi": 30,
                 "bound: x2y(y2x(y))==y on the range": 50, "bound: slope == analytic derivative": 50,
                 "config: tied parameters count once and read equal": 8, "config: fixed parameters change only when assigned": 8,
                 "config: set_all -> get_all_val round trip": 5},
    "cover": {"config_scenario": [0, 1, 2, 3]},
    "min_nontrivial": {"quick": 60, "thorough": 1000},
}
LEVEL_TEXT = ("icontract class invariant on the real VarsManager evaluated after every public method plus an offline checker that replays the "
              "logged operation history against a small sequential model (fixed / tied / free semantics, coordinate switches, read-write-all), "
              "over generated configuration-ordered histories; Bound transformation contracts on random points.")
TECHNIQUE = "icontract class invariant + history log replayed against a sequential model (offline checker)"


def run(ctx):
    import contextlib
    import io
    import warnings

    import icontract
    import tensorflow as tf

    from tf_pwa import variable as V

    from ..attach import InvariantBroken

    warnings.filterwarnings("ignore")
    inv_state = {"ctx": ctx}

    # ------------------------------------------------------------ class invariant (record and return True)
    def structure_ok(self):
        if not hasattr(self, "trainable_vars") or not hasattr(self, "same_list"):
            return True
        problems = []
        tv = list(self.trainable_vars)
        if len(tv) != len(set(tv)):
            problems.append("duplicate names in trainable_vars")
        for nme in tv:
            if nme not in self.variables:
                problems.append("trainable name %s has no variable" % nme)
        for grp in self.same_list:
            present = [x for x in grp if x in self.variables]
            if present:
                objs = {id(self.variables[x]) for x in present}
                if len(objs) != 1:
                    problems.append("tied names %s map to %d storage objects" % (present, len(objs)))
                ntr = sum(1 for x in present if x in tv)
                if ntr > 1:
                    problems.append("tie group %s counts %d times among the free parameters" % (present, ntr))
        for nme in self.bnd_dic:
            if nme not in self.variables and not inv_state.get("allow_unknown_bounds"):
                problems.append("bound on unknown variable %s" % nme)
        for nme in self.complex_vars:
            if nme + "r" not in self.variables or nme + "i" not in self.variables:
                problems.append("complex variable %s lacks components" % nme)
        ctx.check("invariant: VarsManager structure (icontract)", not problems,
                  lambda: {"problems": problems[:5], "history": inv_state.get("history", [])[-12:]}, mechanism="VarsManager invariant: " + (problems[0].split(" ")[0] if problems else ""))
        return True

    V.VarsManager = icontract.invariant(structure_ok, error=InvariantBroken)(V.VarsManager)
    VM = V.VarsManager

    def snapshot(vm):
        vals = {k: float(np.asarray(v)) for k, v in vm.variables.items()}
        return {"values": vals, "trainable": list(vm.trainable_vars), "complex": dict(vm.complex_vars), "same": [list(x) for x in vm.same_list]}

    n_h = ctx.pick(160, 6000)
    for i, rng in ctx.cases("histories", n_h, budget_s=ctx.pick(330, 2000)):
        tf.random.set_seed(int(rng.integers(1 << 30)))
        np.random.seed(int(rng.integers(1 << 30)))
        log = []
        inv_state["history"] = log
        vm = VM()
        vm.polar = bool(rng.random() < 0.7)
        # ---------------- configuration phase
        reals, cplx = [], []
        for k in range(int(rng.integers(2, 8))):
            nm = "m%d" % k
            if rng.random() < 0.6:
                vm.add_real_var(nm, value=float(rng.uniform(-2, 2)), trainable=bool(rng.random() < 0.6))
            else:
                vm.add_real_var(nm, range_=(0.5, 1.5))
            reals.append(nm)
        for k in range(int(rng.integers(2, 6))):
            nm = "c%d_" % k
            if rng.random() < 0.75:
                vm.add_complex_var(nm, polar=None if rng.random() < 0.5 else bool(rng.random() < 0.5))
            else:
                vm.add_complex_var(nm, trainable=False, fix_vals=(float(rng.uniform(-2, 2)), float(rng.uniform(-3, 3))))
            cplx.append(nm)
        shaped = None
        if rng.random() < 0.5:
            with V.variable_scope(vm) if hasattr(V, "variable_scope") else contextlib.nullcontext():
                pass
            shaped = V.Variable("g_ls", shape=[int(rng.integers(1, 4))], cplx=True, vm=vm)
            if rng.random() < 0.5:
                shaped.set_fix_idx(fix_idx=0, fix_vals=(1.0, 0.0))
            for nm in list(vm.complex_vars):
                if nm.startswith("g_ls") and nm not in cplx:
                    cplx.append(nm)
        log.append(("config", "created", sorted(vm.variables)))
        # fix / free
        for nm in reals:
            if rng.random() < 0.3:
                if nm in vm.trainable_vars:
                    vm.set_fix(nm, value=float(rng.uniform(-1, 1)) if rng.random() < 0.5 else None)
                    log.append(("config", "set_fix", nm))
        constrained = set()  # complex names whose components are separately tied / bounded
        fixed_before_ties = {nm for nm in vm.variables if nm not in vm.trainable_vars}
        # ties
        if len(reals) >= 4 and rng.random() < 0.5:
            # several var_equal statements that overlap: two pairs, then a statement bridging them (one merged group of four)
            pick = [str(x) for x in rng.choice(reals, size=4, replace=False)]
            for grp in ([pick[0], pick[1]], [pick[2], pick[3]], [pick[int(rng.integers(2))], pick[2 + int(rng.integers(2))]]):
                vm.set_same(list(grp))
                log.append(("config", "set_same", grp))
            ctx.covered("tie_statements", "overlapping")
            rest = [x for x in reals if x not in pick]
            if rest and rng.random() < 0.6:
                # a further statement ties one more parameter (free or fixed) to a member of the merged group
                rest_fixed = [x for x in rest if x not in vm.trainable_vars]
                extra_grp = [pick[int(rng.integers(4))], str(rng.choice(rest_fixed if rest_fixed and rng.random() < 0.7 else rest))]
                if rng.random() < 0.5:
                    extra_grp.reverse()
                vm.set_same(list(extra_grp))
                log.append(("config", "set_same", extra_grp))
                ctx.covered("tie_statements", "overlapping + one more statement")
        elif len(reals) >= 2 and rng.random() < 0.7:
            grp = list(rng.choice(reals, size=int(rng.integers(2, min(3, len(reals)) + 1)), replace=False))
            vm.set_same(list(grp))
            log.append(("config", "set_same", grp))
            ctx.covered("tie_statements", "single")
        if len(cplx) >= 2 and rng.random() < 0.5:
            grp = [str(x) for x in rng.choice(cplx, size=2, replace=False)]
            # complex ties require the same coordinate form
            if vm.complex_vars[grp[0]] == vm.complex_vars[grp[1]]:
                vm.set_same(list(grp), cplx=True)
                log.append(("config", "set_same_cplx", grp))
        whole_tied = {x for g in vm.same_list for x in g if x in vm.complex_vars}
        free_cplx = [c for c in cplx if c not in whole_tied]
        if len(free_cplx) >= 2 and rng.random() < 0.3:
            # (a complex parameter is either tied as a whole or shares its radius, not both - see ASSUMPTIONS)
            grp = [str(x) for x in rng.choice(free_cplx, size=2, replace=False)]
            vm.set_share_r(list(grp))
            constrained.update(grp)
            log.append(("config", "set_share_r", grp))
        # bounds
        bounded = {}
        if rng.random() < 0.3:
            nm = str(rng.choice(reals))
            tied_tail = any(nm in g[1:] for g in vm.same_list)
            if not tied_tail:
                a = float(vm.variables[nm].numpy()) - float(rng.uniform(0.1, 1.0))
                kind = rng.choice(["two", "lower", "upper"])
                bd = {"two": (a, a + 2.5), "lower": (a, None), "upper": (None, a + 2.5)}[str(kind)]
                vm.set_bound({nm: bd})
                bounded[nm] = bd
                log.append(("config", "set_bound", nm, bd))
        # a parameter fixed before the tie statements stays fixed: every name sharing its storage is outside the free set (otherwise
        # the next fit step / re-randomisation would change it without an assignment)
        by_store = {}
        for nm_, var_ in vm.variables.items():
            by_store.setdefault(id(var_), []).append(nm_)
        leaks = [(sorted(g_), [x for x in g_ if x in vm.trainable_vars]) for g_ in by_store.values()
                 if len(g_) > 1 and any(x in fixed_before_ties for x in g_) and any(x in vm.trainable_vars for x in g_)]
        ctx.check("model: fixed parameters change only when assigned", not leaks,
                  lambda: {"config": [x for x in log if x[0] == "config"], "tie_groups_with_a_fixed_member_still_free": leaks, "fixed_before_the_ties": sorted(fixed_before_ties)},
                  mechanism="a parameter fixed before the tie statements is free after them")
        # tie groups by storage identity (reference from the configuration steps)
        def groups():
            g = {}
            for nm, var in vm.variables.items():
                g.setdefault(id(var), []).append(nm)
            return [v for v in g.values() if len(v) > 1]

        def cval(s, nm):
            r, ii = s["values"][nm + "r"], s["values"][nm + "i"]
            return r * np.exp(1j * ii) if s["complex"][nm] is True else complex(r, ii)

        def comp_tied_or_bounded(nm):
            if nm in constrained:
                return True
            for comp in (nm + "r", nm + "i"):
                if comp in vm.bnd_dic:
                    return True
                for g in vm.same_list:
                    if comp in g and not all((x[:-1] in vm.complex_vars) and ((x[:-1] + "r" in g) == (x[:-1] + "i" in g) or True) for x in g):
                        return True
            # separately tied: r tied without i (share_r) or vice versa
            for g in vm.same_list:
                has_r = nm + "r" in g
                has_i = nm + "i" in g
                if has_r != has_i:
                    return True
            return False

        n_ops = int(rng.integers(20, ctx.pick(60, 120)))
        kinds = set()
        for step in range(n_ops):
            before = snapshot(vm)
            op = str(rng.choice(["set", "set", "set_all_dict", "set_all_list", "roundtrip", "refresh", "rp2xy", "xy2rp", "rp2xy_all", "xy2rp_all",
                                 "std_polar", "std_polar_all", "standard_complex", "trans_params", "mask", "temp", "fix", "unfix", "rename", "set_value_index"]))
            assigned = set()  # names explicitly assigned by this op
            switched = set()  # complex names whose coordinates may legitimately be re-expressed
            free_may_change = False
            desc = [op]
            try:
                if op == "set":
                    nm = str(rng.choice(list(vm.variables)))
                    val = float(rng.uniform(-3, 3))
                    vm.set(nm, val, val_in_fit=False)
                    assigned.add(nm)
                    desc += [nm, val]
                elif op == "set_all_dict":
                    names = [str(x) for x in rng.choice(list(vm.variables), size=int(rng.integers(1, 4)), replace=False)]
                    vals = {nm: float(rng.uniform(-3, 3)) for nm in names}
                    vm.set_all(vals)
                    assigned.update(names)
                    desc += [vals]
                elif op == "set_all_list":
                    vals = [float(rng.uniform(-2, 2)) for _ in vm.trainable_vars]
                    vm.set_all(vals)
                    assigned.update(vm.trainable_vars)
                    desc += [vals]
                elif op == "roundtrip":
                    d = vm.get_all_dic()
                    vm.set_all(d)
                    after = snapshot(vm)
                    ok = all(after["values"][k] == before["values"][k] for k in before["values"])
                    ctx.check("model: read-all/write-all is the identity", ok,
                              lambda: {"history": log[-10:], "changed": {k: (before["values"][k], after["values"][k]) for k in before["values"] if after["values"][k] != before["values"][k]}},
                              mechanism="get_all_dic -> set_all changes values")
                    d2 = vm.get_all_dic(trainable_only=True)
                    ctx.check("model: read-all/write-all is the identity", list(d2) == list(vm.trainable_vars), {"keys": list(d2)}, mechanism="get_all_dic(trainable_only) keys")
                elif op == "refresh":
                    vm.refresh_vars()
                    free_may_change = True
                elif op in ("rp2xy", "xy2rp", "std_polar"):
                    # standardising is also applied to complex parameters that share their radius (set_share_r): every partner keeps its value
                    cand = [c for c in vm.complex_vars if not comp_tied_or_bounded(c) or (op == "std_polar" and c in constrained and c + "r" not in vm.bnd_dic and c + "i" not in vm.bnd_dic)]
                    if not cand:
                        continue
                    nm = str(rng.choice(cand))
                    getattr(vm, op)(nm)
                    switched.add(nm)
                    for g in vm.same_list:  # complex ties switch together
                        if nm + "r" in g:
                            switched.update(x[:-1] for x in g if x.endswith("r"))
                    desc += [nm]
                elif op in ("rp2xy_all", "xy2rp_all", "std_polar_all", "trans_params"):
                    pol = bool(rng.random() < 0.5)
                    standardising = op == "std_polar_all" or (op == "trans_params" and pol)
                    # standardising applies to shared-radius parameters as well (their partners keep their values); the polar <-> Cartesian
                    # switches do not apply to separately tied or bounded components
                    blockers = [c for c in vm.complex_vars if comp_tied_or_bounded(c)
                                and not (standardising and c in constrained and c + "r" not in vm.bnd_dic and c + "i" not in vm.bnd_dic)]
                    if blockers:
                        continue
                    if op == "trans_params":
                        vm.trans_params(pol)
                        desc += [pol]
                    else:
                        getattr(vm, op)()
                    switched.update(vm.complex_vars)
                elif op == "standard_complex":
                    vm.standard_complex()
                    # the convenience pass after a fit standardises the free, unconstrained couplings only (a fixed radius or phase keeps its value)
                    switched.update(c for c in vm.complex_vars if not comp_tied_or_bounded(c) and c + "r" in vm.trainable_vars and c + "i" in vm.trainable_vars)
                elif op == "mask":
                    nm = str(rng.choice(list(vm.variables)))
                    with vm.mask_params({nm: 0.625}):  # exactly representable (the mask value is cast through float32 by the library)
                        rd = float(vm.read(nm))
                        ctx.check("model: masked read returns the mask value", rd == 0.625, {"name": nm, "read": rd}, mechanism="mask_params read")
                        if rng.random() < 0.5:
                            # reading all parameters and writing them back INSIDE the block: the stored value of the masked parameter stays
                            vm.set_all(vm.get_all_dic())
                            desc += ["get_all_dic -> set_all inside the block"]
                    desc += [nm]
                elif op == "temp":
                    names = [str(x) for x in rng.choice(list(vm.variables), size=int(rng.integers(1, 3)), replace=False)]
                    with vm.temp_params({nm: float(rng.uniform(-1, 1)) for nm in names}):
                        pass
                    desc += [names]
                elif op == "fix":
                    tv = list(vm.trainable_vars)
                    if not tv:
                        continue
                    nm = str(rng.choice(tv))
                    if rng.random() < 0.5:
                        val = float(rng.uniform(-1, 1))
                        vm.set_fix(nm, value=val)
                        assigned.add(nm)
                        desc += [nm, val]
                        got_ = float(vm.get(nm, val_in_fit=False))
                        ctx.check("model: fixed parameters change only when assigned", abs(got_ - val) <= 1e-12 * (1 + abs(val)),
                                  lambda: {"name": nm, "assigned": val, "read": got_, "bounded": nm in vm.bnd_dic, "history": log[-6:]},
                                  mechanism="set_fix(name, value) reads back another value" + (" (bounded)" if nm in vm.bnd_dic else ""))
                    else:
                        vm.set_fix(nm)
                        desc += [nm]
                elif op == "set_value_index":
                    # assignment to ONE element of the shaped complex Variable (Variable.set_value(value, index=[k]))
                    if shaped is None:
                        continue
                    k_el = int(rng.integers(0, shaped.shape[0]))
                    el = "g_ls_%d" % k_el
                    if el + "r" not in vm.trainable_vars or comp_tied_or_bounded(el):
                        continue
                    val2 = [float(rng.uniform(0.2, 2.0)), float(rng.uniform(-3, 3))]
                    shaped.set_value(val2, index=[k_el])
                    assigned.update([el + "r", el + "i"])
                    desc += [el, val2]
                    got2 = [float(vm.get(el + "r", val_in_fit=False)), float(vm.get(el + "i", val_in_fit=False))]
                    ctx.check("model: fixed parameters change only when assigned", got2 == val2, lambda: {"op": desc, "read_back": got2, "history": log[-6:]},
                              mechanism="Variable.set_value(value, index) does not store the value in the addressed element")
                elif op == "unfix":
                    cand = [nm for nm in vm.variables if nm not in vm.trainable_vars and not any(nm in g for g in vm.same_list)]
                    if not cand:
                        continue
                    nm = str(rng.choice(cand))
                    vm.set_fix(nm, unfix=True)
                    desc += [nm]
                elif op == "rename":
                    # rename is outside the property's operation list; tied names are not renamed (rename_var raises for them)
                    cand = [nm for nm in reals if nm in vm.variables and not any(nm in g for g in vm.same_list)]
                    if not cand:
                        continue
                    nm = str(rng.choice(cand))
                    new = nm + "x"
                    vm.rename_var(nm, new)
                    reals[reals.index(nm)] = new
                    before["values"][new] = before["values"].pop(nm)
                    before["trainable"] = [new if x == nm else x for x in before["trainable"]]
                    desc += [nm, new]
            except Exception as e:
                ctx.violation("model: fixed parameters change only when assigned", ctx.exc_witness(e, op=desc, history=log[-10:]), mechanism="VarsManager." + op + " raises")
                break
            kinds.add(op)
            after = snapshot(vm)
            log.append(("op", desc))
            # ---- offline-style judgement of this step against the sequential model
            tie_of = {}
            for g in groups():
                for nm in g:
                    tie_of[nm] = g
            assigned_closure = set(assigned)
            for nm in assigned:
                assigned_closure.update(tie_of.get(nm, []))
            switched_comps = set()
            for c in switched:
                for comp in (c + "r", c + "i"):
                    switched_comps.add(comp)
                    switched_comps.update(tie_of.get(comp, []))
            bad_fixed = []
            for nm, v in after["values"].items():
                if nm not in before["values"]:
                    continue
                fixed = nm not in before["trainable"] and nm not in after["trainable"] and not any(x in before["trainable"] for x in tie_of.get(nm, []))
                if fixed and nm not in assigned_closure and nm not in switched_comps and v != before["values"][nm]:
                    bad_fixed.append((nm, before["values"][nm], v))
                if not fixed and not free_may_change and nm not in assigned_closure and nm not in switched_comps and v != before["values"][nm]:
                    bad_fixed.append((nm, before["values"][nm], v, "free but not assigned"))
            ctx.check("model: fixed parameters change only when assigned", not bad_fixed, lambda: {"op": desc, "changed": bad_fixed[:5], "history": log[-10:]},
                      mechanism="unassigned parameter changed by " + op)
            if shaped is not None and op != "mask":
                # the value the amplitude code gets: the shaped Variable called as a function, component by component, against the stored
                # numbers and the coordinate form recorded for each component
                try:
                    got_s = np.asarray(shaped()).reshape((-1,))
                    names_s = [k_[:-1] for k_ in shaped.all_name_list[::2]]
                    want_s = np.array([cval(after, k_) for k_ in names_s])
                    ok_s = got_s.shape == want_s.shape and np.max(np.abs(got_s - want_s)) <= 1e-12 * max(1.0, float(np.max(np.abs(want_s))))
                    ctx.check("model: coordinate switch preserves the complex value", bool(ok_s),
                              lambda: {"op": desc, "variable": "g_ls (shaped)", "returned_by_call": got_s, "stored": want_s, "polar_flags": [after["complex"].get(k_) for k_ in names_s], "history": log[-8:]},
                              mechanism="shaped Variable() differs from its stored components after " + op)
                except Exception as e_:
                    ctx.count("shaped_read_error:" + type(e_).__name__)
            bad_tie = [g for g in groups() if len({after["values"][x] for x in g}) != 1]
            ctx.check("model: tied parameters read equal", not bad_tie, lambda: {"op": desc, "groups": bad_tie, "history": log[-10:]}, mechanism="tied parameters differ after " + op)
            for c in switched:
                if c in before["complex"] and c in after["complex"] and c + "r" in before["values"]:
                    z0, z1 = cval(before, c), cval(after, c)
                    ok = abs(z1 - z0) <= 1e-12 * max(1.0, abs(z0))
                    ctx.check("model: coordinate switch preserves the complex value", ok, lambda: {"op": desc, "name": c, "before": [z0.real, z0.imag], "after": [z1.real, z1.imag], "polar_before": before["complex"].get(c), "polar_after": after["complex"].get(c), "config": [x for x in log if x[0] == "config"], "history": log[-8:]},
                              mechanism="complex value changed by " + op)
                    if op in ("std_polar", "std_polar_all", "standard_complex") or (op == "trans_params" and desc[-1] is True):
                        if after["complex"][c] is True:
                            r, ph = after["values"][c + "r"], after["values"][c + "i"]
                            ctx.check("model: std_polar gives r>=0, -pi<=phi<pi", r >= 0 and -math.pi <= ph < math.pi,
                                      lambda: {"op": desc, "name": c, "r": r, "phi": ph, "before": [before["values"][c + "r"], before["values"][c + "i"]]},
                                      mechanism="std_polar leaves phi outside [-pi,pi) or r<0")
        nt = bool(vm.same_list) and len(vm.trainable_vars) < len(vm.variables) and bool(vm.complex_vars)
        ctx.case(("hist", repr([x[1] for x in log if x[0] == "op"])), nontrivial=nt)
        for k in kinds:
            ctx.covered("operation", k)
        if i < 2:
            ctx.sample({"section": "histories", "config": [x for x in log if x[0] == "config"], "first_ops": [x[1] for x in log if x[0] == "op"][:8]})

    # ------------------------------------------------------------ AbsPDF.get_params / set_params round trip on a real model
    if ctx.section_active("model_params") and ctx.shard == 0:
        from ..gen import cards

        rng = np.random.default_rng([ctx.seed, 16])
        for k in range(ctx.pick(3, 20)):
            card = cards.CardGen(rng, "_c16s%dk%d" % (ctx.seed, k), nbody=3, n_chains=(2, 3)).make()
            cfg = cards.load(card)
            amp = cfg.get_amplitude()
            p0 = amp.get_params()
            amp.set_params(p0)
            p1 = amp.get_params()
            ctx.check("model: read-all/write-all is the identity", all(p0[x] == p1[x] for x in p0), {"card": cards.short(card)}, mechanism="AbsPDF.get_params -> set_params")
            tv = list(amp.vm.trainable_vars)
            ctx.check("invariant: VarsManager structure (icontract)", len(tv) == len(set(tv)), {"card": cards.short(card)}, mechanism="trainable duplicates in loaded model")

    # ------------------------------------------------------------ coordinate switches on the couplings of a real model: the complex value a
    # coupling contributes is observable as the density (same events, same charges) before and after rp2xy_all / xy2rp_all / std_polar_all
    KF_CP_SWITCH = "complex value changed by rp2xy_all [CP-violating chain couplings: the charge-dependent value r+-dr, phi+-dphi]"
    n_sw = ctx.pick(8, 120)
    for i, rng in ctx.cases("model_switch", n_sw, budget_s=ctx.pick(150, 900)):
        from ..gen import cards

        cp_chains = i % 2 == 1
        try:
            card = cards.CardGen(rng, "_c16Ws%di%d" % (ctx.seed, i), nbody=3, n_chains=(2, 3), res_per_slot=(1, 2), final_j2=(0, 0, 1, 2), models=("default", "BW"), decay_opts_prob=0.0).make()
            if cp_chains:
                card["config"]["decay_chain"] = {"$all": {"is_cp": True}}
            with contextlib.redirect_stdout(io.StringIO()):
                cfg = cards.load(card)
                amp = cfg.get_amplitude()
                amp.set_params(cards.random_params(amp, (ctx.seed, i)))
        except Exception as e:
            ctx.count("switch_card_failed")
            continue
        ps = cards.events(card, 24, rng, classes=False)
        ex = {"charge_conjugation": rng.choice([1.0, -1.0], 24)} if cp_chains else {}
        f0, _ = cards.density(cfg, ps, **ex)
        if not np.median(f0) > 1e-20:
            continue
        one_c = [c_ for c_ in amp.vm.complex_vars if c_ + "r" in amp.vm.trainable_vars and "g_ls" in c_]
        seq = ["rp2xy_all", "std_polar_all", "rp2xy_all", "xy2rp_all"] + ([("rp2xy", one_c[-1]), ("xy2rp", one_c[-1])] if one_c and not cp_chains else []) + ["std_polar_all"]
        for opname in seq:
            try:
                if isinstance(opname, tuple):
                    getattr(amp.vm, opname[0])(opname[1])
                    opname = "%s(one coupling)" % opname[0]
                else:
                    getattr(amp.vm, opname)()
                f1, _ = cards.density(cfg, ps, **ex)
            except Exception as e:
                ctx.violation("model: coordinate switch preserves the complex value", ctx.exc_witness(e, op=opname, card=cards.short(card)), mechanism="coordinate switch on a model raises: " + opname)
                break
            dv = float(np.max(np.abs(f1 - f0) / (np.abs(f0) + 1e-3 * np.median(f0))))
            ctx.check("model: coordinate switch preserves the complex value", dv < 1e-9,
                      lambda: {"op": opname, "cp_violating_chain_couplings": cp_chains, "max_relative_change_of_the_density": dv, "card": cards.short(card), "config": card["config"]},
                      mechanism=KF_CP_SWITCH if (cp_chains and opname == "rp2xy_all") else "density changed by %s on a loaded model%s" % (opname, " (CP-violating couplings)" if cp_chains else ""))
            if dv >= 1e-9:
                break
        ctx.case(("switch", cp_chains, cards.card_digest_key(card)), nontrivial=True)
        ctx.covered("model_switch_cp_couplings", cp_chains)

    # ------------------------------------------------------------ the same semantics when a configuration applies the operations
    # (constrains: fix_var / free_var / var_range / var_equal on overlapping names, in the order ConfigLoader applies them)
    n_c = ctx.pick(10, 200)
    for i, rng in ctx.cases("config_constraints", n_c, budget_s=ctx.pick(200, 1200)):
        from ..gen import cards

        tag = "_c16Cs%di%d" % (ctx.seed, i)
        try:
            card = cards.CardGen(rng, tag, nbody=3, n_chains=(2, 3), res_per_slot=(1, 2), models=("default", "BW"), decay_opts_prob=0.0).make()
            with contextlib.redirect_stdout(io.StringIO()):
                probe = cards.load(card)
                free0 = list(probe.get_amplitude().vm.trainable_vars)
                all0 = sorted(probe.get_amplitude().get_params())
            del probe
        except Exception as e:
            ctx.count("config_card_failed")
            ctx.note("config card failed %r" % (e,))
            continue
        res = [r["name"] for r in card["meta"]["resonances"]]
        masses = [r + "_mass" for r in res if r + "_mass" in all0]
        rr = [k_ for k_ in free0 if k_.endswith("r")]
        constr = card["config"].setdefault("constrains", {})
        scen = i % 4
        expect_fixed, expect_tied = [], []
        if scen == 0 and len(masses) >= 2:
            # two resonances share one floating mass: both freed and tied
            constr["free_var"] = [masses[0], masses[1]]
            constr["var_equal"] = [[masses[0], masses[1]]]
            expect_tied = [[masses[0], masses[1]]]
        elif scen == 1 and len(rr) >= 2:
            # the NON-head member of a tie is fixed: the whole group is fixed
            constr["fix_var"] = {rr[1]: 0.33}
            constr["var_equal"] = [[rr[0], rr[1]]]
            expect_tied = [[rr[0], rr[1]]]
            expect_fixed = [rr[0], rr[1]]
        elif scen == 2 and len(rr) >= 3:
            # the head of a three-member tie is fixed, one member also bounded
            constr["fix_var"] = {rr[0]: 0.6}
            constr["var_equal"] = [[rr[0], rr[1], rr[2]]]
            expect_tied = [[rr[0], rr[1], rr[2]]]
            expect_fixed = [rr[0], rr[1], rr[2]]
        elif len(rr) >= 2 and masses:
            # a freed mass with a range and an independent tie of two couplings
            constr["free_var"] = [masses[0]]
            constr["var_range"] = {masses[0]: [0.1, None]}
            constr["var_equal"] = [[rr[-2], rr[-1]]]
            expect_tied = [[rr[-2], rr[-1]]]
        else:
            ctx.count("config_card_too_small")
            continue
        desc = {"constrains": constr, "card": cards.short(card)}
        try:
            with contextlib.redirect_stdout(io.StringIO()):
                cfg = cards.load(card)
                amp = cfg.get_amplitude()
            vm = amp.vm
            structure_ok(vm)
            tv = list(vm.trainable_vars)
            before = {k_: float(v_) for k_, v_ in amp.get_params().items()}
            # tie groups count once and read one value
            for g_ in expect_tied:
                ntr = sum(1 for x in g_ if x in tv)
                vals = {before[x] for x in g_}
                ctx.check("config: tied parameters count once and read equal", ntr <= 1 and len(vals) == 1, lambda: dict(desc, group=g_, times_free=ntr, values=sorted(vals)),
                          mechanism="config constraints: tie group counted %d times / %d values (scenario %d)" % (ntr, len(vals), scen))
            # write-all / read-all round trip on the free parameters, a fit-like sequence of set_all, refresh
            x_new = [float(x) for x in rng.uniform(0.2, 1.5, len(tv))]
            vm.set_all(x_new)
            back = [float(x) for x in vm.get_all_val()]
            ctx.check("config: set_all -> get_all_val round trip", bool(np.allclose(back, x_new, rtol=0, atol=1e-14)), lambda: dict(desc, wrote=x_new[:6], read=back[:6], free=tv[:6]),
                      mechanism="config constraints: set_all/get_all_val (scenario %d)" % scen)
            vm.refresh_vars() if hasattr(vm, "refresh_vars") else None
            amp.set_params({k_: before[k_] for k_ in tv if k_ in before})
            vm.set_all([float(x) for x in rng.uniform(0.2, 1.5, len(tv))])
            after = {k_: float(v_) for k_, v_ in amp.get_params().items()}
            moved = {k_: (before[k_], after[k_]) for k_ in expect_fixed if abs(before[k_] - after[k_]) > 0}
            ctx.check("config: fixed parameters change only when assigned", not moved, lambda: dict(desc, moved=moved), mechanism="config constraints: fixed member of a tie moved (scenario %d)" % scen)
            untied_fixed = [k_ for k_ in before if k_ not in tv and not any(k_ in g_ for g_ in vm.same_list)]
            moved2 = {k_: (before[k_], after[k_]) for k_ in untied_fixed if abs(before[k_] - after[k_]) > 0}
            ctx.check("config: fixed parameters change only when assigned", not moved2, lambda: dict(desc, moved=dict(list(moved2.items())[:4])), mechanism="config constraints: fixed parameter moved (scenario %d)" % scen)
            for g_ in expect_tied:
                ctx.check("config: tied parameters count once and read equal", len({after[x] for x in g_}) == 1, lambda: dict(desc, group=g_, values=[after[x] for x in g_]),
                          mechanism="config constraints: tied values differ after updates (scenario %d)" % scen)
            ctx.case(("cfgc", scen, cards.card_digest_key(card)), nontrivial=True)
            ctx.covered("config_scenario", scen)
        except Exception as e:
            ctx.violation("config: tied parameters count once and read equal", ctx.exc_witness(e, **desc), mechanism="config constraints raise (scenario %d)" % scen)

    # ------------------------------------------------------------ Bound contracts
    n_b = ctx.pick(160, 3000)
    for i, rng in ctx.cases("bounds", n_b):
        kind = ["two", "lower", "upper", "custom"][i % 4]
        a = float(rng.uniform(-3, 3))
        b = a + float(rng.uniform(0.1, 4.0))
        if kind == "two":
            bd = V.Bound(a, b)
        elif kind == "lower":
            bd = V.Bound(a, None)
        elif kind == "upper":
            bd = V.Bound(None, b)
        else:
            bd = V.Bound(a, b, func="(b-a)/(1+exp(-x))+a")
        desc = {"kind": kind, "a": a, "b": b, "func": bd.func}
        devs = []
        for _ in range(6):
            if kind == "two":
                y = float(rng.uniform(a, b))
            elif kind == "lower":
                y = a + float(rng.uniform(0, 5))
            elif kind == "upper":
                y = b - float(rng.uniform(0, 5))
            else:
                y = float(rng.uniform(a + 1e-3 * (b - a), b - 1e-3 * (b - a)))
            x = bd.get_y2x(y)
            y2 = bd.get_x2y(x)
            devs.append(abs(y2 - y))
        ctx.check("bound: x2y(y2x(y))==y on the range", max(devs) < 1e-9, lambda: dict(desc, dev=max(devs)), mechanism="bound inverse: " + kind)
        # clamping outside the range
        if kind in ("two", "lower"):
            ctx.check("bound: x2y(y2x(y))==y on the range", abs(bd.get_x2y(bd.get_y2x(a - 1.0)) - a) < 1e-9, desc, mechanism="bound clamp low: " + kind)
        if kind in ("two", "upper"):
            ctx.check("bound: x2y(y2x(y))==y on the range", abs(bd.get_x2y(bd.get_y2x(b + 1.0)) - b) < 1e-9, desc, mechanism="bound clamp high: " + kind)
        # x -> y always inside; y2x(x2y(x)) is SOME pre-image; slopes
        for _ in range(5):
            x = float(rng.uniform(-6, 6))
            y = bd.get_x2y(x)
            inside = (a - 1e-12 <= y if kind != "upper" else True) and (y <= b + 1e-12 if kind != "lower" else True)
            x2 = bd.get_y2x(y)
            pre = abs(bd.get_x2y(x2) - y) < 1e-9
            h = 1e-5
            fd1 = (bd.get_x2y(x + h) - bd.get_x2y(x - h)) / (2 * h)
            fd2 = (bd.get_x2y(x + h) - 2 * y + bd.get_x2y(x - h)) / (h * h)
            s1, s2 = bd.get_dydx(x), bd.get_d2ydx2(x)
            ok_s = abs(s1 - fd1) < 1e-6 * (1 + abs(fd1)) and abs(s2 - fd2) < 1e-4 * (1 + abs(fd2))
            ctx.check("bound: x2y(y2x(y))==y on the range", inside and pre, lambda: dict(desc, x=x, y=y, x2=x2), mechanism="bound range/pre-image: " + kind)
            ctx.check("bound: slope == analytic derivative", ok_s, lambda: dict(desc, x=x, dydx=s1, fd=fd1, d2=s2, fd2=fd2), mechanism="bound slope: " + kind)
        ctx.case(("bound", kind, round(a, 6), round(b, 6)), nontrivial=True)
        ctx.covered("bound_kind", kind)
