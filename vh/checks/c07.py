"""C07 - returned gradients and Hessians are the true derivatives of the returned NLL."""
import contextlib
import gc
import io

import numpy as np

from ..gen import cards, lik

LEVEL = "exploration"
SHARDS = {"quick": 18, "thorough": 16}
TIMEOUT = {"quick": 800, "thorough": 3400}
THREADS = {"quick": 1, "thorough": 1}
RULE = (
    "per case: one generated 3-body card with floating couplings, masses, widths (with ranges), a model parameter where the model "
    "has one, fixed and tied parameters and Gaussian constraints x likelihood model (rotating over default, extended, cfit, "
    "cfit_cached, cfit_extended, cached_int (fixed shapes), cached_amp, simple) x weighted toy samples at a generic (non-stationary) "
    "point: gradient vs Richardson-extrapolated central differences of FCN.__call__, Hessian vs central differences of the library "
    "gradient (+ symmetry), Hessian-vector product vs H@p and vs the directional difference of the gradient, value returned "
    "alongside vs stand-alone value, other batch sizes, and the same three comparisons in bounded (transformed) coordinates through "
    "VarsManager.trans_fcn_grad / trans_f_grad_hess / trans_grad_hessp for two-sided, lower and upper bounds.  non-trivial = >=3 "
    "free parameters of >=2 kinds and gradient norm > 1e-3; distinct = (model, card key, bound set)."
)
RULE += '  Also: Gaussian constraint declared on the second name of a tie; the same likelihood object after one parameter was fixed and freed again (reduced / permuted Hessian).'
ASSUMPTIONS = [
    "interior points only; all logged arguments > 1e-5 (above the clip_log knee) else skipped",
    "FD: h in {1e-4, 5e-5} with Richardson; a component whose two step sizes disagree by more than 10x tolerance is skipped as ill-conditioned",
    "tolerances: gradient 1e-5*(|g|+1e-3*max|g|), Hessian/Hessp 1e-4 of max|H|",
]
REQUIRE = {
    "monitors": {"gradient == dNLL/dx (FD of __call__)": 10, "Hessian == d grad/dx (FD of nll_grad)": 5, "Hessian symmetric": 5,
                 "value alongside gradient/Hessian == stand-alone value": 10, "gradient independent of batch size": 8,
                 "Hessian-vector product == H@p": 1, "transformed coordinates: gradient": 3, "transformed coordinates: Hessian": 1,
                 "CombineFCN: value/gradient alongside Hessian == stand-alone": 2, "CombineFCN: Hessian == d grad/dx (directional FD)": 1,
                 "Hessian after the free set changed and was restored": {"quick": 0, "thorough": 3}},
    "cover": {"model": ["default", "extended", "cfit", "cfit_cached", "cfit_extended", "cached_int", "cached_amp", "simple", "simple_cfit"],
              "hessian_model": ["default", "extended", "cfit", "cfit_cached", "cfit_extended", "cached_int", "cached_amp", "simple", "simple_cfit"]},
    "min_nontrivial": {"quick": 8, "thorough": 200},
}
LEVEL_TEXT = ("Differential runtime monitor: gradients, Hessians and Hessian-vector products returned by FCN / CombineFCN and by the bound "
              "transformation wrappers are compared with numerical derivatives of the value the same object reports, across the eight "
              "likelihood models, bound types, floating-parameter kinds and batch sizes.")
TECHNIQUE = "differential runtime monitor vs finite differences of the reported NLL / gradient"

MODEL_NAMES = list(lik.MODELS)


def quiet():
    return contextlib.redirect_stdout(io.StringIO())


def make_card(rng, tag, float_shapes, tied_constraint=False):
    card = cards.CardGen(rng, tag, nbody=3, n_chains=(2, 3), final_j2=(0, 0, 1), res_per_slot=(1, 1), models=("default", "BW"), decay_opts_prob=0.0).make()
    cfg = card["config"]
    res = card["meta"]["resonances"]
    gauss = {}
    # only resonances whose nominal mass (and its allowed range) lies inside the kinematic window are floated: for m0 at/below
    # threshold the running width is not differentiable (q0 = 0), which is not an interior point of the domain
    fm = [f["mass"] for f in card["meta"]["finals"]]
    M = card["meta"]["top"]["mass"]
    inside = []
    for r in res:
        lo = sum(fm[j] for j in r["slot"])
        hi = M - (sum(fm) - lo)
        if lo + 0.3 < r["m0"] < hi - 0.05:
            inside.append(r)
    res = inside
    if float_shapes and res:
        r0 = res[0]
        pc = cfg["particle"][r0["name"]]
        pc["float"] = "mg"
        pc["m_min"], pc["m_max"] = r0["m0"] - 0.2, r0["m0"] + 0.2
        if len(res) > 1:
            r1 = res[1]
            pc = cfg["particle"][r1["name"]]
            pc["float"] = "m"
            pc["gauss_constr"] = {"m": 0.05}
            if tied_constraint:
                # the two masses are tied (var_equal, first name = r0) and the Gaussian constraint is declared on the SECOND name of the
                # tie; the shared value (r0's mass) lies inside both kinematic windows
                lo1 = sum(fm[j] for j in r1["slot"])
                hi1 = M - (sum(fm) - lo1)
                if lo1 + 0.3 < r0["m0"] < hi1 - 0.05:
                    cfg.setdefault("constrains", {}).setdefault("var_equal", []).append([r0["name"] + "_mass", r1["name"] + "_mass"])
                    cfg["particle"][r0["name"]].pop("m_min", None)
                    cfg["particle"][r0["name"]].pop("m_max", None)
                    card["meta"]["tied_constraint"] = True
    return card


def run(ctx):
    import tensorflow as tf

    n_cases = ctx.pick(18, 600)
    for i, rng in ctx.cases("derivatives", n_cases, budget_s=ctx.pick(600, 3000)):
        tag = "_c07s%di%d" % (ctx.seed, i)
        model = MODEL_NAMES[i % len(MODEL_NAMES)]
        opts, kind = lik.MODELS[model]
        opts = dict(opts)
        if kind == "bg":
            opts["bg_weight"] = 0.3
        float_shapes = model != "cached_int" and (i // len(MODEL_NAMES)) % 2 == 0
        try:
            card = make_card(rng, tag, float_shapes, tied_constraint=(rot_ := i % len(MODEL_NAMES) + i // len(MODEL_NAMES)) % 3 == 0)
            # ties: two couplings of different chains share their value
            with quiet():
                probe = cards.load(card, extra_data=opts)
                names = sorted(probe.get_amplitude().vm.trainable_vars)
            gls = [k for k in names if "g_ls" in k and k.endswith("r")]
            if len(gls) >= 2 and i % 3 == 0 and not card["meta"].get("tied_constraint"):
                card2 = {"config": dict(card["config"]), "meta": card["meta"]}
                card2["config"] = __import__("copy").deepcopy(card["config"])
                # fresh names needed for a second load of a modified card
                card = card2
                card["config"].setdefault("constrains", {})["var_equal"] = [[gls[0], gls[1]]]
            del probe
        except Exception as e:
            ctx.count("card_failed")
            ctx.note("card failed %r" % (e,))
            continue
        ctx.context = {"model": model, "card": cards.short(card), "index": i}
        desc = lambda: {"model": model, "opts": opts, "config": card["config"], "param_key": [ctx.seed, i]}
        try:
            with quiet():
                # second load of the same names: same configuration -> same cached CG matrices (allowed, see DESIGN section 2)
                cfg = cards.load(card, extra_data=opts)
                amp = cfg.get_amplitude()
            p0 = cards.random_params(amp, (ctx.seed, i))
            amp.set_params(p0)
        except Exception as e:
            ctx.violation("gradient == dNLL/dx (FD of __call__)", ctx.exc_witness(e, **desc()), mechanism="likelihood model load raises (%s)" % model)
            continue
        cfit = kind == "cfit"
        n, nmc = 83, 160
        rot = i % len(MODEL_NAMES) + i // len(MODEL_NAMES)  # model index + round: conditions on it rotate over the models from round to round, whatever the number of models
        data = lik.make_sample(cfg, card, n, rng, "positive" if rot % 2 else "ones", cfit=cfit)
        phsp = lik.make_sample(cfg, card, nmc, rng, ["ones", "positive", "mixed_mild"][i % 3], cfit=cfit)
        bg = None if cfit else lik.make_sample(cfg, card, 17, rng, "ones")
        try:
            with quiet():
                fcn = cfg.get_fcn([[data], [phsp], [bg], None], batch=40)
            vm = amp.vm
            tv = list(vm.trainable_vars)
            x0 = np.array([float(vm.variables[k].numpy()) for k in tv])
            with quiet():
                v0 = float(fcn(dict(zip(tv, x0))))
                v1, g = fcn.nll_grad(dict(zip(tv, x0)))
            g = np.asarray(g, dtype=float)
        except Exception as e:
            ctx.violation("gradient == dNLL/dx (FD of __call__)", ctx.exc_witness(e, **desc()), mechanism="nll_grad raises (%s)" % model)
            continue
        if not np.isfinite(v0) or len(tv) < 3:
            ctx.count("skipped_nonfinite_or_few_params")
            continue
        kinds = {("mass" if k.endswith("_mass") else "width" if k.endswith("_width") else "coupling") for k in tv}
        ctx.case((model, cards.card_digest_key(card), float_shapes), nontrivial=len(tv) >= 3 and (len(kinds) >= 2 or not float_shapes) and np.linalg.norm(g) > 1e-3)
        ctx.covered("model", model)
        ctx.covered("gauss_constraint_declared_on", "second name of a tie" if card["meta"].get("tied_constraint") else ("free name" if cfg.gauss_constr_dic else "none"))
        for k_ in kinds:
            ctx.covered("floating_kind", k_)
        ctx.check("value alongside gradient/Hessian == stand-alone value", abs(float(v1) - v0) <= 1e-9 * (1 + abs(v0)), lambda: dict(desc(), call=v0, nll_grad=float(v1)),
                  mechanism="value alongside gradient (%s)" % model)

        def F(x):
            with quiet():
                return float(fcn(dict(zip(tv, x))))

        def G(x):
            with quiet():
                return np.asarray(fcn.nll_grad(dict(zip(tv, x)))[1], dtype=float)

        # (a) gradient vs Richardson FD of the value
        gmax = np.max(np.abs(g)) + 1e-12
        fd = np.zeros(len(tv))
        cond = np.ones(len(tv), dtype=bool)
        for j in range(len(tv)):
            est = []
            for h in (1e-4, 5e-5):
                xp, xm = x0.copy(), x0.copy()
                xp[j] += h
                xm[j] -= h
                est.append((F(xp) - F(xm)) / (2 * h))
            fd[j] = (4 * est[1] - est[0]) / 3
            tolj = 1e-5 * (abs(g[j]) + 1e-3 * gmax)
            if abs(est[1] - est[0]) > 10 * tolj:
                cond[j] = False
        F(x0)
        tol = 1e-5 * (np.abs(g) + 1e-3 * gmax)
        ratio = np.abs(g - fd) / tol
        ctx.count("skipped_ill_conditioned_components", int((~cond).sum()))
        if cond.any():
            worst = float(np.max(ratio[cond]))
            jw = int(np.argmax(np.where(cond, ratio, -1)))
            ctx.dev("gradient vs FD (dev/tol)", worst, 1.0)
            ctx.check("gradient == dNLL/dx (FD of __call__)", worst <= 1.0, lambda: dict(desc(), parameter=tv[jw], lib=g[jw], fd=fd[jw], ratio=worst),
                      mechanism="gradient (%s): %s" % (model, "mass" if tv[jw].endswith("_mass") else "width" if tv[jw].endswith("_width") else "coupling"))
        # (e) other batch sizes
        try:
            with quiet():
                fcn2 = cfg.get_fcn([[data], [phsp], [bg], None], batch=int(rng.choice([7, 33, 65000])))
                v2, g2 = fcn2.nll_grad(dict(zip(tv, x0)))
            g2 = np.asarray(g2, dtype=float)
            okb = abs(float(v2) - v0) <= 1e-9 * (1 + abs(v0)) and np.all(np.abs(g2 - g) <= 1e-7 * (np.abs(g) + 1e-3 * gmax))
            ctx.check("gradient independent of batch size", bool(okb), lambda: dict(desc(), dv=float(v2) - v0, dg=float(np.max(np.abs(g2 - g)))), mechanism="batch dependence of gradient (%s)" % model)
        except Exception as e:
            ctx.violation("gradient independent of batch size", ctx.exc_witness(e, **desc()), mechanism="nll_grad raises with another batch size (%s)" % model)
        # (b) Hessian vs FD of the library gradient
        do_hess = rot % 2 == 0 or ctx.tier == "thorough"  # every model gets a Hessian case within two rounds of the model rotation
        H = None
        if do_hess:
            try:
                with quiet():
                    v3, g3, H = fcn.nll_grad_hessian(dict(zip(tv, x0)))
                H = np.asarray(H, dtype=float)
                g3 = np.asarray(g3, dtype=float)
                ctx.covered("hessian_model", model)  # Hessian evaluated for this model (compared below unless the FD reference is ill-conditioned)
                Hfd = np.zeros_like(H)
                Hc = np.zeros_like(H)
                for j in range(len(tv)):
                    est = []
                    for h in (2e-4, 1e-4):
                        xp, xm = x0.copy(), x0.copy()
                        xp[j] += h
                        xm[j] -= h
                        est.append((G(xp) - G(xm)) / (2 * h))
                    Hfd[j] = (4 * est[1] - est[0]) / 3
                    Hc[j] = np.abs(est[1] - est[0])
                G(x0)
                Hfd = 0.5 * (Hfd + Hfd.T)
                if np.max(Hc) > 1e-3 * (np.max(np.abs(Hfd)) + 1e-12):
                    ctx.count("skipped_ill_conditioned_hessian_FD")
                    raise StopIteration
                hmax = np.max(np.abs(Hfd)) + 1e-12
                dev = float(np.max(np.abs(H - Hfd)) / hmax)
                jj = np.unravel_index(int(np.argmax(np.abs(H - Hfd))), H.shape)
                ctx.dev("Hessian vs FD (rel to max|H|)", dev, 1e-4)
                ctx.check("Hessian == d grad/dx (FD of nll_grad)", dev <= 1e-4, lambda: dict(desc(), entry=[tv[jj[0]], tv[jj[1]]], lib=H[jj], fd=Hfd[jj], rel=dev),
                          mechanism="Hessian (%s)" % model)
                ctx.check("Hessian symmetric", float(np.max(np.abs(H - H.T))) <= 1e-8 * hmax, lambda: dict(desc(), asym=float(np.max(np.abs(H - H.T)))), mechanism="Hessian symmetry (%s)" % model)
                okv = abs(float(v3) - v0) <= 1e-9 * (1 + abs(v0)) and np.all(np.abs(g3 - g) <= 1e-7 * (np.abs(g) + 1e-3 * gmax))
                ctx.check("value alongside gradient/Hessian == stand-alone value", bool(okv), lambda: dict(desc(), call=v0, hess_value=float(v3), dg=float(np.max(np.abs(g3 - g)))),
                          mechanism="value/gradient alongside Hessian (%s)" % model)
            except StopIteration:
                H = None
            except Exception as e:
                ctx.violation("Hessian == d grad/dx (FD of nll_grad)", ctx.exc_witness(e, **desc()), mechanism="nll_grad_hessian raises (%s)" % model)
                H = None
        # (c) Hessian-vector product
        if H is not None and (rot % 2 == 0 or ctx.tier == "thorough"):  # every model: FCN.grad_hessp is offered for all of them
            p = rng.normal(size=len(tv))
            try:
                with quiet():
                    gp, hp = fcn.grad_hessp(dict(zip(tv, x0)), p)
                hp = np.asarray(hp, dtype=float)
                gp = np.asarray(gp, dtype=float)
                ref = H @ p
                dev = float(np.max(np.abs(hp - ref)) / (np.max(np.abs(ref)) + 1e-12))
                ctx.dev("Hessp vs H@p", dev, 1e-4)
                ctx.check("Hessian-vector product == H@p", dev <= 1e-4 and np.all(np.abs(gp - g) <= 1e-7 * (np.abs(g) + 1e-3 * gmax)),
                          lambda: dict(desc(), rel=dev, worst_parameter=tv[int(np.argmax(np.abs(hp - ref)))], lib=hp[int(np.argmax(np.abs(hp - ref)))], ref=ref[int(np.argmax(np.abs(hp - ref)))]),
                          mechanism="grad_hessp (%s)%s" % (model, " with gaussian constraint" if cfg.gauss_constr_dic else ""))
            except NotImplementedError:
                ctx.count("grad_hessp_not_implemented:" + model)
            except Exception as e:
                ctx.violation("Hessian-vector product == H@p", ctx.exc_witness(e, **desc()), mechanism="grad_hessp raises (%s)" % model)
        # (f) transformed coordinates
        if rot % 4 in (2, 3) or ctx.tier == "thorough":
            bnd = {}
            for k_ in rng.choice(tv, size=min(3, len(tv)), replace=False):
                v_ = float(vm.variables[k_].numpy())
                bnd[str(k_)] = [(v_ - 0.7, v_ + 1.1), (v_ - 0.7, None), (None, v_ + 1.1)][int(rng.integers(3))]
            vm.set_bound(bnd)
            try:
                xs = np.array(vm.get_all_val(True), dtype=float)
                f_g = vm.trans_fcn_grad(fcn.nll_grad)
                with quiet():
                    fv, gx = f_g(xs)
                gx = np.asarray(gx, dtype=float)

                def Fx(x):
                    with quiet():
                        return float(f_g(x)[0])

                fdx = np.zeros(len(tv))
                for j in range(len(tv)):
                    est = []
                    for h in (1e-4, 5e-5):
                        xp, xm = xs.copy(), xs.copy()
                        xp[j] += h
                        xm[j] -= h
                        est.append((Fx(xp) - Fx(xm)) / (2 * h))
                    fdx[j] = (4 * est[1] - est[0]) / 3
                gm = np.max(np.abs(gx)) + 1e-12
                r_ = np.abs(gx - fdx) / (1e-5 * (np.abs(gx) + 1e-3 * gm))
                ctx.dev("transformed gradient (dev/tol)", float(np.max(r_)), 1.0)
                ctx.check("transformed coordinates: gradient", float(np.max(r_)) <= 1.0 and abs(fv - v0) <= 1e-8 * (1 + abs(v0)),
                          lambda: dict(desc(), bounds={k_: list(v_) for k_, v_ in bnd.items()}, parameter=tv[int(np.argmax(r_))], lib=gx[int(np.argmax(r_))], fd=fdx[int(np.argmax(r_))]),
                          mechanism="trans_fcn_grad (%s)" % model)
                if do_hess and H is not None:
                    f_h = vm.trans_f_grad_hess(fcn.nll_grad_hessian)
                    with quiet():
                        _, _, Hx = f_h(xs)
                    Hx = np.asarray(Hx, dtype=float)
                    Hfd = np.zeros_like(Hx)
                    h = 1e-4
                    for j in range(len(tv)):
                        xp, xm = xs.copy(), xs.copy()
                        xp[j] += h
                        xm[j] -= h
                        with quiet():
                            Hfd[j] = (np.asarray(f_g(xp)[1], dtype=float) - np.asarray(f_g(xm)[1], dtype=float)) / (2 * h)
                    Hfd = 0.5 * (Hfd + Hfd.T)
                    dev = float(np.max(np.abs(Hx - Hfd)) / (np.max(np.abs(Hfd)) + 1e-12))
                    ctx.dev("transformed Hessian", dev, 1e-4)
                    ctx.check("transformed coordinates: Hessian", dev <= 1e-4, lambda: dict(desc(), bounds={k_: list(v_) for k_, v_ in bnd.items()}, rel=dev),
                              mechanism="trans_f_grad_hess (%s)" % model)
                    if model in ("default", "simple", "extended", "cached_amp"):
                        f_p = vm.trans_grad_hessp(fcn.grad_hessp)
                        p = rng.normal(size=len(tv))
                        with quiet():
                            _, hpx = f_p(xs, p)
                        ref = Hfd @ p
                        dev = float(np.max(np.abs(np.asarray(hpx, dtype=float) - ref)) / (np.max(np.abs(ref)) + 1e-12))
                        ctx.check("transformed coordinates: Hessian", dev <= 2e-4, lambda: dict(desc(), rel=dev), mechanism="trans_grad_hessp (%s)" % model)
            except Exception as e:
                ctx.violation("transformed coordinates: gradient", ctx.exc_witness(e, **desc()), mechanism="transformed derivatives raise (%s)" % model)
            finally:
                vm.remove_bound()
                with quiet():
                    fcn(dict(zip(tv, x0)))
        # (g) simultaneous fit: the CombineFCN object's value / gradient / Hessian / Hessian-vector product are consistent with
        # one another and with directional finite differences of its own value (constraints must enter exactly once)
        if ((float_shapes and i % 2 == 0 and model != "cached_amp") or ctx.tier == "thorough") and model in ("default", "extended", "cfit", "cfit_extended", "cached_amp", "simple"):
            try:
                data2 = lik.make_sample(cfg, card, 41, rng, "positive", cfit=cfit)
                phsp2 = lik.make_sample(cfg, card, 90, rng, "ones", cfit=cfit)
                with quiet():
                    opts2 = dict(opts, bg_weight=[0.3, 0.3]) if kind == "bg" else dict(opts, bg_frac=[opts["bg_frac"]] * 2)
                    cfg2 = cards.load(card, extra_data=opts2)
                    amp2 = cfg2.get_amplitude()
                    amp2.set_params(p0)
                    comb = cfg2.get_fcn([[data, data2], [phsp, phsp2], [bg, None], None], batch=40)
                    tv2 = list(amp2.vm.trainable_vars)
                    xd = dict(zip(tv, x0))
                    xc = np.array([xd[k_] for k_ in tv2])
                    # move constrained parameters off their constraint mean, otherwise the constraint gradient vanishes
                    xc = xc + 0.01 * rng.normal(size=len(xc))

                    def Fc(x):
                        with quiet():
                            return float(comb(dict(zip(tv2, x))))

                    def Gc(x):
                        with quiet():
                            return np.asarray(comb.nll_grad(dict(zip(tv2, x)))[1], dtype=float)

                    c0 = Fc(xc)
                    c1, cg = comb.nll_grad(dict(zip(tv2, xc)))
                    cg = np.asarray(cg, dtype=float)
                    c2, cg2, cH = comb.nll_grad_hessian(dict(zip(tv2, xc)))
                    cg2, cH = np.asarray(cg2, dtype=float), np.asarray(cH, dtype=float)
                gmc = np.max(np.abs(cg)) + 1e-12
                ok_v = abs(float(c1) - c0) <= 1e-9 * (1 + abs(c0)) and abs(float(c2) - c0) <= 1e-9 * (1 + abs(c0)) and \
                    bool(np.all(np.abs(cg2 - cg) <= 1e-7 * (np.abs(cg) + 1e-3 * gmc)))
                constr = " with gaussian constraint" if cfg2.gauss_constr_dic else ""
                ctx.check("CombineFCN: value/gradient alongside Hessian == stand-alone", ok_v,
                          lambda: dict(desc(), call=c0, nll_grad=float(c1), hess_value=float(c2), dg=float(np.max(np.abs(cg2 - cg)))),
                          mechanism="CombineFCN value/gradient alongside Hessian (%s)%s" % (model, constr))
                u = rng.normal(size=len(tv2))
                u /= np.linalg.norm(u)
                est = [(Fc(xc + h * u) - Fc(xc - h * u)) / (2 * h) for h in (1e-4, 5e-5)]
                d_fd = (4 * est[1] - est[0]) / 3
                est2 = [(Gc(xc + h * u) - Gc(xc - h * u)) / (2 * h) for h in (2e-4, 1e-4)]
                hu_fd = (4 * est2[1] - est2[0]) / 3
                Fc(xc)
                d_lib = float(cg @ u)
                if abs(est[1] - est[0]) <= 1e-4 * (abs(d_fd) + 1e-3 * gmc):
                    ctx.check("CombineFCN: gradient == directional FD", abs(d_lib - d_fd) <= 1e-5 * (abs(d_fd) + 1e-2 * gmc),
                              lambda: dict(desc(), lib=d_lib, fd=d_fd), mechanism="CombineFCN gradient (%s)%s" % (model, constr))
                hscale = np.max(np.abs(hu_fd)) + 1e-12
                if np.max(np.abs(est2[1] - est2[0])) <= 1e-3 * hscale:
                    devc = float(np.max(np.abs(cH @ u - hu_fd)) / hscale)
                    ctx.dev("CombineFCN H@u vs FD", devc, 1e-4)
                    ctx.check("CombineFCN: Hessian == d grad/dx (directional FD)", devc <= 1e-4, lambda: dict(desc(), rel=devc),
                              mechanism="CombineFCN Hessian (%s)%s" % (model, constr))
                    if model in ("default", "extended", "cached_amp", "simple"):
                        with quiet():
                            _, hpc = comb.grad_hessp(dict(zip(tv2, xc)), u)
                        devp = float(np.max(np.abs(np.asarray(hpc, dtype=float) - hu_fd)) / hscale)
                        ctx.check("CombineFCN: Hessian == d grad/dx (directional FD)", devp <= 1e-4, lambda: dict(desc(), rel=devp),
                                  mechanism="CombineFCN grad_hessp (%s)%s" % (model, constr))
                else:
                    ctx.count("skipped_ill_conditioned_combine_hessian_FD")
                ctx.covered("combine_constraint", "gauss" if cfg2.gauss_constr_dic else "none")
                del comb
            except Exception as e:
                ctx.violation("CombineFCN: value/gradient alongside Hessian == stand-alone", ctx.exc_witness(e, **desc()), mechanism="CombineFCN derivatives raise (%s)" % model)
        # (h) history on the SAME likelihood object: one parameter is fixed (the Hessian of the reduced set is evaluated), then freed again,
        # which moves it to the end of the free-parameter list.  At the same point the Hessian / Hessian-vector product must be the
        # FD-validated one above with rows and columns permuted (caches inside the object must follow the free set and its order).
        if H is not None and (cfg.gauss_constr_dic or ctx.tier == "thorough"):
            tied = {n_ for grp in card["config"].get("constrains", {}).get("var_equal", []) for n_ in grp}
            cand = [k_ for k_ in tv[:-1] if k_ not in tied]
            if cand:
                a_fix = cand[0]
                hmax_ = float(np.max(np.abs(H))) + 1e-12
                try:
                    with quiet():
                        vm.set_fix(a_fix)
                        tv_r = list(vm.trainable_vars)
                        xd_ = dict(zip(tv, x0))
                        H_r = fcn.nll_grad_hessian({k_: xd_[k_] for k_ in tv_r})[2] if ctx.tier == "thorough" else None
                        vm.set_fix(a_fix, unfix=True)
                        tv_p = list(vm.trainable_vars)
                        _, g_p, H_p = fcn.nll_grad_hessian({k_: xd_[k_] for k_ in tv_p})
                        p_vec = rng.normal(size=len(tv_p))
                        hp_p = None
                        if ctx.tier == "thorough":  # the forward-over-reverse trace costs ~50 s
                            try:
                                _, hp_p = fcn.grad_hessp({k_: xd_[k_] for k_ in tv_p}, p_vec)
                                hp_p = np.asarray(hp_p, dtype=float)
                            except NotImplementedError:
                                hp_p = None
                    H_p = np.asarray(H_p, dtype=float)
                    keep = [tv.index(k_) for k_ in tv_r]
                    perm = [tv.index(k_) for k_ in tv_p]
                    d_r = 0.0
                    if H_r is not None:
                        d_r = float(np.max(np.abs(np.asarray(H_r, dtype=float) - H[np.ix_(keep, keep)])) / hmax_) if set(tv_r) == set(tv) - {a_fix} else np.inf
                    d_p = float(np.max(np.abs(H_p - H[np.ix_(perm, perm)])) / hmax_) if sorted(tv_p) == sorted(tv) else np.inf
                    d_h = 0.0 if hp_p is None else float(np.max(np.abs(hp_p - H[np.ix_(perm, perm)] @ p_vec)) / (np.max(np.abs(H @ np.ones(len(tv)))) + hmax_))
                    ctx.check("Hessian after the free set changed and was restored", d_r <= 1e-6 and d_p <= 1e-6 and d_h <= 1e-4,
                              lambda: dict(desc(), fixed_then_freed=a_fix, order_before=tv, order_after=tv_p, reduced_dev=d_r, permuted_dev=d_p, hessp_dev=d_h,
                                           gauss_constraints=sorted(cfg.gauss_constr_dic) if cfg.gauss_constr_dic else []),
                              mechanism="Hessian after fix/free of another parameter (%s)%s" % (model, " with gaussian constraint" if cfg.gauss_constr_dic else ""))
                    ctx.covered("history_fix_free_constraint", bool(cfg.gauss_constr_dic))
                except Exception as e:
                    ctx.violation("Hessian after the free set changed and was restored", ctx.exc_witness(e, fixed_then_freed=a_fix, **desc()),
                                  mechanism="Hessian after fix/free raises (%s)" % model)
        if i < ctx.nshards:
            ctx.sample({"model": model, "free_parameters": tv, "nll": v0, "gradient": g, "fd_gradient": fd}, limit=2)
        del fcn
        gc.collect()
