"""C02 - the density does not depend on unphysical bookkeeping conventions."""
import copy
import itertools

import numpy as np

from ..gen import cards
from ..oracle import kin
from .c01 import MODELS, conditioned, tolerance

LEVEL = "exploration"
SHARDS = {"quick": 12, "thorough": 16}
TIMEOUT = {"quick": 600, "thorough": 3000}
THREADS = {"quick": 1, "thorough": 1}
RULE = (
    "per case: one generated card with >=2 chains (3- or 4-body, spinning finals incl. spin 1/2) is loaded in its declared "
    "form and in re-declared forms {every/random permutation of the chain list and of dict key order, align_ref=center_mass, "
    "random_z True/False, center_mass True/False, only_left_angle}; parameters are copied BY NAME; 40 events (half with a "
    "moving parent) are evaluated by both models.  non-trivial = >=2 chains of different topology and a final particle with "
    "J>0; distinct = card structure key + variant."
)
RULE += '  Also: a share of the cards with other registered decay models (helicity_full, helicity_parity, gls-bf).'
ASSUMPTIONS = [
    "unpolarised parent; default (Wigner-rotation aware, r_boost) alignment",
    "pairs whose parameter-name sets differ are not comparable and are skipped, not failed",
    "tolerance as C01",
]
REQUIRE = {
    "monitors": {
        "chain order permutation": 20,
        "align_ref center_mass vs default": 10,
        "random_z True vs False": 10,
        "center_mass True vs False": 10,
        "only_left_angle": 5,
    },
    "min_nontrivial": {"quick": 30, "thorough": 300},
    "cover": {"nbody": [3, 4], "spin_half_final": ["True"]},
}
LEVEL_TEXT = ("Pair monitor over two ConfigLoader instances built from equivalent configurations (permuted chain lists / key order, "
              "alignment reference, z-axis and centre-of-mass options), parameters copied by name, same momenta: densities must agree.")
TECHNIQUE = "metamorphic pair monitor over equivalent configurations (differential execution of the real loader + amplitude)"


def permuted_config(cfg, rng, full_perm=None):
    """same physics, other declaration order: chain list of the top decay, dict key orders"""
    c = copy.deepcopy(cfg)
    top = list(c["particle"]["$top"])[0]
    lst = c["decay"][top]
    if isinstance(lst[0], list):
        perm = full_perm if full_perm is not None else list(rng.permutation(len(lst)))
        c["decay"][top] = [lst[k] for k in perm]
    keys = list(c["decay"])
    c["decay"] = {k: c["decay"][k] for k in [keys[j] for j in rng.permutation(len(keys))]}
    pk = [k for k in c["particle"] if not k.startswith("$")]
    head = {k: c["particle"][k] for k in c["particle"] if k.startswith("$")}
    c["particle"] = dict(head, **{k: c["particle"][k] for k in [pk[j] for j in rng.permutation(len(pk))]})
    # candidate lists order too
    for k, v in c["particle"].items():
        if isinstance(v, list) and len(v) > 1:
            c["particle"][k] = [v[j] for j in rng.permutation(len(v))]
    return c


def run(ctx):
    from .. import attach

    attach.density_contract(ctx)
    n_cards = ctx.pick(110, 3000)
    for i, rng in ctx.cases("pairs", n_cards, budget_s=ctx.pick(420, 2400)):
        tag = "_c02s%di%d" % (ctx.seed, i)
        nb = 3 if i % 3 else 4
        try:
            g = cards.CardGen(rng, tag, nbody=nb, n_chains=(2, 3), final_j2=(0, 1, 1, 2) if nb == 3 else (0, 0, 1, 2),
                              res_per_slot=(1, 2) if nb == 3 else (1, 1), models=MODELS,
                              decay_models=("helicity_full", "helicity_parity", "gls-bf") if i % 4 == 2 else None)
            card = g.make()
            ctx.covered("decay_models", "default only" if i % 4 != 2 else "helicity_full / helicity_parity / gls-bf on some vertices")
        except RuntimeError:
            ctx.count("card_generation_failed")
            continue
        meta = card["meta"]
        try:
            base = cards.load(card)
            amp0 = base.get_amplitude()
            amp0.set_params(cards.random_params(amp0, (ctx.seed, i)))
            params = amp0.get_params()
        except Exception as e:
            ctx.count("card_load_failed")
            ctx.note("load failed %r" % (e,))
            continue
        nev = 40
        ps = cards.events(card, nev, rng)
        v = kin.random_velocity(rng, speeds=(0.2, 0.6, 0.9))
        ps_lab = [np.concatenate([p[: nev // 2], kin.boost(p[nev // 2:], v)]) for p in ps]  # half at rest, half moving parent
        good = conditioned(card, ps)
        spin_final = any(f["j2"] > 0 for f in meta["finals"])
        nontrivial = len(meta["trees"]) >= 2 and spin_final
        ctx.covered("nbody", meta["n"])
        ctx.covered("spin_half_final", any(f["j2"] % 2 for f in meta["finals"]))
        ctx.context = {"card": cards.short(card), "index": i}
        # recorded declaration-order dependence (default bw_l / creators[0], see known_findings.json): class of the card
        kf_order = cards.declaration_order_class(meta)
        ctx.covered("declaration_order_class", kf_order.strip() or "none")

        def compare(monitor, cfg_b, events_a, events_b=None, base_cfg=base, label=None):
            events_b = events_a if events_b is None else events_b
            try:
                other = cards.load({"config": cfg_b, "meta": meta})
                amp1 = other.get_amplitude()
            except Exception as e:
                ctx.violation(monitor, ctx.exc_witness(e, card=cards.short(card), variant=label, config_b=cfg_b), mechanism=monitor + " load raises")
                return
            names1 = set(amp1.get_params())
            if names1 != set(params):
                ctx.count("skipped_not_comparable_param_names")
                ctx.note("param names differ for %s: %s" % (monitor, sorted(names1 ^ set(params))[:4]))
                return
            amp1.set_params(params)
            try:
                fa, _ = cards.density(base_cfg, events_a)
                fb, _ = cards.density(other, events_b)
            except Exception as e:
                ctx.violation(monitor, ctx.exc_witness(e, card=cards.short(card), variant=label, config_b=cfg_b), mechanism=monitor + " raises")
                return
            if not np.median(fa) > 1e-20:
                ctx.count("degenerate_zero_density")
                return
            tol = tolerance(fa)
            d = np.abs(fa - fb)
            worst = float(np.max((d / tol)[good])) if np.any(good) else 0.0
            k = int(np.argmax(np.where(good, d / tol, -1)))
            ctx.dev(monitor + " (|df|/tol)", worst, 1.0)
            ctx.check(monitor, worst <= 1.0, lambda: {"card": cards.short(card), "variant": label, "config_a": card["config"], "config_b": cfg_b,
                                                      "param_key": [ctx.seed, i], "event": k, "fa": fa[k], "fb": fb[k],
                                                      "momenta": [p[k] for p in events_a], "worst_ratio": worst},
                      mechanism=monitor + (kf_order if monitor in ("chain order permutation", "combined re-declaration") else ""))
            ctx.case(cards.card_digest_key(card) + (monitor, repr(label)), nontrivial=nontrivial)

        cfg = card["config"]
        # (i) chain order: all permutations for <= 3 top entries, a random one otherwise
        top = meta["top"]["name"]
        n_top = len(cfg["decay"][top]) if isinstance(cfg["decay"][top][0], list) else 1
        perms = list(itertools.permutations(range(n_top)))[1:] if n_top <= 3 else [tuple(rng.permutation(n_top))]
        for perm in perms[: ctx.pick(2, 5)]:
            compare("chain order permutation", permuted_config(cfg, rng, list(perm)), ps_lab, label={"perm": perm})
        # (ii) alignment reference: first chain vs parent rest frame (momenta given in / moved to the CM frame)
        a = copy.deepcopy(cfg)
        a["data"]["center_mass"] = True
        b = copy.deepcopy(a)
        b["data"]["align_ref"] = "center_mass"
        try:
            base_cm = cards.load({"config": a, "meta": meta})
            base_cm.get_amplitude().set_params(params)
            compare("align_ref center_mass vs default", b, ps_lab, base_cfg=base_cm, label={"align_ref": "center_mass", "center_mass": True})
        except Exception as e:
            ctx.violation("align_ref center_mass vs default", ctx.exc_witness(e, card=cards.short(card)), mechanism="align_ref load raises")
        # align_ref alone (center_mass left at its default False): parent at rest, and momenta given in a frame where the parent moves
        b2 = copy.deepcopy(cfg)
        b2["data"]["align_ref"] = "center_mass"
        compare("align_ref center_mass vs default", b2, ps, label={"align_ref": "center_mass", "parent": "at rest"})
        for rz in (True, False):
            b3 = copy.deepcopy(b2)
            b3["data"]["random_z"] = rz
            compare("align_ref center_mass vs default", b3, ps_lab, label={"align_ref": "center_mass", "center_mass": False, "parent": "half of the events moving", "random_z": rz})
        # (iii) z axis
        for rz in (True, False):
            b = copy.deepcopy(cfg)
            b["data"]["random_z"] = rz
            compare("random_z True vs False", b, ps_lab, label={"random_z": rz})
        # (iv) centre-of-mass
        b = copy.deepcopy(cfg)
        b["data"]["center_mass"] = True
        compare("center_mass True vs False", b, ps_lab, label={"center_mass": True})
        # (v) only_left_angle
        if i % 2 == 0:
            b = copy.deepcopy(cfg)
            b["data"]["only_left_angle"] = True
            compare("only_left_angle", b, ps_lab, label={"only_left_angle": True})
        # (vi) combination
        if i % 2 == 1:
            b = permuted_config(cfg, rng)
            b["data"].update({"random_z": bool(rng.random() < 0.5), "center_mass": True, "align_ref": "center_mass"})
            compare("combined re-declaration", b, ps_lab, label=dict(b["data"]))
        if i < 2 * ctx.nshards:
            ctx.sample({"card": cards.short(card), "variants": ["chain permutations", "align_ref", "random_z", "center_mass", "only_left_angle"],
                        "event0": [p[0] for p in ps_lab]}, limit=3)
