"""C14 - decay topologies are enumerated and identified correctly."""
import itertools
from collections import Counter

import numpy as np

LEVEL = "exploration"
SHARDS = {"quick": 6, "thorough": 16}
TIMEOUT = {"quick": 400, "thorough": 2400}
RULE = (
    "exhaustive: DecayChain.from_particles for n=2..6 (quick) / 2..7 (thorough) final particles, every generated chain "
    "checked as a binary tree and all chains pairwise distinct; topology_same on ALL pairs for n<=5 (quick) / n<=6 "
    "(thorough) plus random pairs for larger n, with distinct and with identical-particle names (name:id); sampled: "
    "decay groups from random subsets of chains with renamed intermediates. non-trivial = n>=3 finals; distinct = "
    "distinct (n, chain grouping set[, partner]) tuple."
)
RULE += '  Also: repeated enumeration after the previous result was edited in place and for new particle objects that carry earlier names.'
ASSUMPTIONS = [
    "reference groupings are computed by an independent recursive leaf collection over (mother, daughters) pairs",
    "identical=True compares multisets of name lists, identical=False sets of particle sets (DESIGN C14)",
]
EXHAUSTIVE_PART = "from_particles counts/trees n<=6 quick, n<=7 thorough; topology_same all pairs n<=5 quick, n<=6 thorough"
REQUIRE = {
    "monitors": {
        "count==(2n-3)!!": 4,
        "chain is binary tree over finals": 100,
        "chains pairwise distinct": 4,
        "topology_same==reference": 1000,
        "from_sorted_table roundtrip": 100,
        "topology_map preserves decays": 100,
        "group: one class per chain": 20,
        "group: classes==reference": 20,
        "group: maps preserve decays": 20,
        "repeated enumeration": 4,
    },
    "min_nontrivial": 100,
}
LEVEL_TEXT = ("Runtime monitors on DecayChain/DecayGroup against an independent tree/grouping reference: counts, tree shape and "
              "pairwise distinctness enumerated completely for every n the property names, topology_same on all pairs of the smaller n, "
              "equivalence classes and particle maps on sampled decay groups (renamed intermediates, identical-particle names).")
TECHNIQUE = "differential runtime monitor vs independent tree reference (exhaustive enumeration + sampled groups)"


def dfact(n):  # (2n-3)!!
    r = 1
    for k in range(2 * n - 3, 1, -2):
        r *= k
    return r


def ref_groupings(chain, by_name):
    """Independent: from the (core, outs) pairs only. Returns Counter of tuples (one per node incl. leaves/top)."""
    children = {}
    for d in chain:
        children[repr(d.core)] = [repr(o) for o in d.outs]
    names = {}
    for d in chain:
        names[repr(d.core)] = d.core.name
        for o in d.outs:
            names[repr(o)] = o.name
    all_nodes = set(names)
    daughters = {o for v in children.values() for o in v}
    tops = [x for x in children if x not in daughters]

    def leaves(x):
        if x not in children:
            return [x]
        out = []
        for c in children[x]:
            out += leaves(c)
        return out

    g = Counter()
    for x in all_nodes:
        lv = leaves(x)
        key = tuple(sorted(names[v] for v in lv)) if by_name else tuple(sorted(lv))
        g[key] += 1
    return g, tops, children, all_nodes


def tree_ok(chain, top, finals):
    g, tops, children, nodes = ref_groupings(chain, False)
    fin = sorted(repr(f) for f in finals)
    if tops != [repr(top)]:
        return False, "top"
    if any(len(v) != 2 for v in children.values()):
        return False, "not binary"
    if len(children) != len(finals) - 1:
        return False, "decay count"
    # every non-top node is a daughter exactly once
    cnt = Counter(o for v in children.values() for o in v)
    if any(c != 1 for c in cnt.values()) or set(cnt) != nodes - {repr(top)}:
        return False, "creator count"
    leaves_ = sorted(x for x in nodes if x not in children)
    if leaves_ != fin:
        return False, "leaves"
    if g[tuple(fin)] != 1:
        return False, "top grouping"
    return True, ""


def make_finals(n, identical, BaseParticle, tag, two_pairs=False):
    if not identical:
        return [BaseParticle("f%s%d" % (tag, i)) for i in range(n)]
    if two_pairs and n >= 4:
        # two families of identical particles: pi:1, pi:2, K:1, K:2 (, rest distinct)
        out = [BaseParticle("pi%s:%d" % (tag, i + 1)) for i in range(2)] + [BaseParticle("K%s:%d" % (tag, i + 1)) for i in range(2)]
        return out + [BaseParticle("f%s%d" % (tag, i)) for i in range(n - 4)]
    # identical-particle names: pi:1, pi:2 (, pi:3), rest distinct
    k = 2 if n < 5 else 3
    out = [BaseParticle("pi%s:%d" % (tag, i + 1)) for i in range(k)]
    out += [BaseParticle("f%s%d" % (tag, i)) for i in range(n - k)]
    return out


def run(ctx):
    from tf_pwa.particle import BaseDecay, BaseParticle, DecayChain, DecayGroup

    nmax_enum = ctx.pick(6, 7)
    nmax_pairs = ctx.pick(5, 6)
    chains_by_n = {}

    # ---------------------------------------------------------------- enumeration
    enum_active = ctx.section_active("enumerate")
    if True:
        for n in range(2, nmax_enum + 1):
            for identical in (False, True):
                if identical and n < 3:
                    continue
                key = (n, identical)
                top = BaseParticle("T%d%s" % (n, "i" if identical else "d"))
                finals = make_finals(n, identical, BaseParticle, "%d%s" % (n, "i" if identical else "d"))
                try:
                    chains = DecayChain.from_particles(top, finals)
                except Exception as e:
                    ctx.violation("count==(2n-3)!!", ctx.exc_witness(e, n=n), mechanism="from_particles raises")
                    continue
                chains_by_n[key] = (top, finals, chains)
                if not enum_active or not ctx.owns(n * 2 + int(identical)):
                    continue
                ctx.check("count==(2n-3)!!", len(chains) == dfact(n), {"n": n, "got": len(chains), "want": dfact(n)},
                          mechanism="from_particles count")
                seen = set()
                for c in chains:
                    ok, why = tree_ok(c, top, finals)
                    ctx.check("chain is binary tree over finals", ok, lambda: {"n": n, "chain": repr(c), "why": why},
                              mechanism="from_particles tree shape")
                    g, *_ = ref_groupings(c, False)
                    seen.add(frozenset(g))
                    # library's own canonical table must agree with the reference groupings
                    st = c.sorted_table()
                    lib_g = Counter(tuple(sorted(repr(x) for x in v)) for v in st.values())
                    ctx.check("sorted_table==reference groupings", lib_g == g, lambda: {"chain": repr(c)},
                              mechanism="sorted_table")
                    ctx.case(("enum", n, identical, tuple(sorted(g))), nontrivial=n >= 3)
                ctx.check("chains pairwise distinct", len(seen) == len(chains), {"n": n, "distinct": len(seen), "chains": len(chains)},
                          mechanism="from_particles distinct")
                ctx.covered("n_finals_enumerated", n)
                ctx.count("chains_enumerated", len(chains))
                if n == 4 and not identical:
                    ctx.sample({"section": "enumerate", "n": 4, "count": len(chains), "first_chains": [repr(c) for c in chains[:3]]})

    # ---------------------------------------------------------------- repeated enumeration (history): the result of one call is
    # edited in place, the enumeration is asked again for the same particles, then for NEW particle objects that carry the same
    # names with other quantum numbers (a spin scan).  Every call must return all (2n-3)!! trees over exactly the objects given.
    if ctx.section_active("repeat"):
        for n in range(3, ctx.pick(5, 6) + 1):
            if not ctx.owns(n):
                continue
            tag = "rep%d" % n
            top = BaseParticle("T" + tag, J=0, P=-1)
            finals = [BaseParticle("f%s%d" % (tag, i), J=0, P=-1) for i in range(n)]
            hist = []
            try:
                first = DecayChain.from_particles(top, finals)
                hist.append(("call", len(first)))
                first_n = len(first)
                del first[1:]
                hist.append(("del result[1:]", len(first)))
                again = DecayChain.from_particles(top, finals)
                hist.append(("call", len(again)))
                again.pop()
                again.reverse()
                third = DecayChain.from_particles(top, list(finals))
                hist.append(("pop+reverse, call", len(third)))
                ok_counts = first_n == dfact(n) and len(again) + 1 == dfact(n) and len(third) == dfact(n)
                distinct = len({frozenset(ref_groupings(c, False)[0]) for c in third}) == len(third)
                trees = all(tree_ok(c, top, finals)[0] for c in third)
                ctx.check("repeated enumeration", ok_counts and distinct and trees, lambda: {"n": n, "history": hist, "want": dfact(n), "distinct": distinct, "trees_ok": trees},
                          mechanism="from_particles after the previous result was edited in place")
                top2 = BaseParticle("T" + tag, J=1, P=-1)
                finals2 = [BaseParticle("f%s%d" % (tag, i), J=1 if i == 0 else 0, P=-1) for i in range(n)]
                scan = DecayChain.from_particles(top2, finals2)
                given = {id(x) for x in finals2}
                bad = []
                for c in scan:
                    lv = [o for d in c for o in d.outs if not any(o is d2.core for d2 in c)]
                    tp = [d.core for d in c if not any(d.core is o for d2 in c for o in d2.outs)]
                    if {id(x) for x in lv} != given or len(tp) != 1 or tp[0] is not top2:
                        bad.append({"chain": repr(c), "leaf_J": [getattr(x, "J", None) for x in lv], "top_J": [getattr(x, "J", None) for x in tp]})
                ctx.check("repeated enumeration", len(scan) == dfact(n) and not bad, lambda: {"n": n, "count": len(scan), "want": dfact(n), "chains_not_over_the_given_objects": bad[:2],
                                                                                     "given": "new particle objects with the names of the previous call, J(first final)=1, J(top)=1"},
                          mechanism="from_particles for new particle objects with the names of an earlier call")
                ctx.case(("repeat", n), nontrivial=True)
            except Exception as e:
                ctx.violation("repeated enumeration", ctx.exc_witness(e, n=n, history=hist), mechanism="repeated from_particles raises")

    # ---------------------------------------------------------------- topology_same, all pairs
    if ctx.section_active("pairs"):
        for (n, identical), (top, finals, chains) in sorted(chains_by_n.items()):
            if n > nmax_pairs:
                continue
            refs = {by: [ref_groupings(c, by)[0] for c in chains] for by in (True, False)}
            k = 0
            bad = 0
            for i in range(len(chains)):
                if not ctx.owns(i):
                    continue
                for j in range(i, len(chains)):
                    for by in (True, False):
                        want = refs[by][i] == refs[by][j]
                        got = chains[i].topology_same(chains[j], identical=by)
                        k += 1
                        if got != want:
                            bad += 1
                            ctx.violation("topology_same==reference",
                                          {"n": n, "identical_arg": by, "a": repr(chains[i]), "b": repr(chains[j]), "lib": got, "ref": want},
                                          mechanism="topology_same")
                        if want and i != j:
                            ctx.count("pairs_same_nontrivial")
            ctx.monitors["topology_same==reference"] = ctx.monitors.get("topology_same==reference", 0) + k - bad
            ctx.case(("pairs", n, identical, ctx.shard), nontrivial=n >= 3)
            ctx.covered("n_finals_all_pairs", n)
        ctx.sample({"section": "pairs", "note": "all (i<=j) pairs, identical=True and False, for each enumerated n <= %d" % nmax_pairs})

    # random pairs for larger n with renamed intermediates + shuffled decay order (same topology, other names)
    def renamed_copy(c, rng, tag):
        ren = {}
        for p in c.inner:
            ren[p] = BaseParticle("X%s_%d" % (tag, len(ren)))
        decs = [BaseDecay(ren.get(d.core, d.core), [ren.get(o, o) for o in (d.outs if rng.random() < 0.5 else d.outs[::-1])],
                          disable=True) for d in c]
        decs = [decs[k] for k in rng.permutation(len(decs))]
        return DecayChain(decs), ren

    n_rand = ctx.pick(300, 6000)
    for i, rng in ctx.cases("random_pairs", n_rand):
        keys = [k for k in chains_by_n if k[0] >= 4]
        n, identical = keys[int(rng.integers(len(keys)))]
        top, finals, chains = chains_by_n[(n, identical)]
        a = chains[int(rng.integers(len(chains)))]
        b = chains[int(rng.integers(len(chains)))] if rng.random() < 0.5 else a
        b2, ren = renamed_copy(b, rng, "%d_%d" % (ctx.seed, i))
        for by in (True, False):
            want = ref_groupings(a, by)[0] == ref_groupings(b2, by)[0]
            got = a.topology_same(b2, identical=by)
            ctx.check("topology_same==reference", got == want,
                      lambda: {"a": repr(a), "b": repr(b2), "identical_arg": by, "lib": got, "ref": want}, mechanism="topology_same")
        # round trip through the canonical table
        try:
            back = DecayChain.from_sorted_table(b2.sorted_table())
            ok = set(back.chain) == set(b2.chain) and back.topology_same(b2, identical=False)
            # decays as (mother, daughters) string sets, independent of library __eq__
            s1 = {(repr(d.core), tuple(sorted(repr(o) for o in d.outs))) for d in back}
            s2 = {(repr(d.core), tuple(sorted(repr(o) for o in d.outs))) for d in b2}
            ctx.check("from_sorted_table roundtrip", ok and s1 == s2, lambda: {"chain": repr(b2), "back": repr(back)},
                      mechanism="from_sorted_table")
        except Exception as e:
            ctx.violation("from_sorted_table roundtrip", ctx.exc_witness(e, chain=repr(b2)), mechanism="from_sorted_table raises")
        # topology_map between b and its renamed copy, and to the standard topology
        for other, label in ((b2, "renamed"), (None, "standard")):
            try:
                m = b.topology_map(other) if other is not None else b.topology_map()
                tgt = other if other is not None else b.standard_topology()
                parts = b.get_all_particles()
                img = [m.get(p) for p in parts]
                bij = all(x is not None for x in img) and len({repr(x) for x in img}) == len(parts)
                tgt_decays = {(repr(d.core), tuple(sorted(repr(o) for o in d.outs))) for d in tgt}
                pres = bij and all(
                    (repr(m[d.core]), tuple(sorted(repr(m[o]) for o in d.outs))) in tgt_decays
                    and d in m and (repr(m[d].core), tuple(sorted(repr(o) for o in m[d].outs)))
                    == (repr(m[d.core]), tuple(sorted(repr(m[o]) for o in d.outs)))
                    for d in b
                )
                if other is not None:
                    # map must send every intermediate to its renamed twin and fix top/finals
                    pres = pres and all(repr(m[p]) == repr(ren.get(p, p)) for p in parts)
                ctx.check("topology_map preserves decays", pres, lambda: {"chain": repr(b), "other": repr(tgt), "kind": label,
                                                                          "map": {repr(k_): repr(v_) for k_, v_ in m.items()}},
                          mechanism="topology_map " + label)
            except Exception as e:
                ctx.violation("topology_map preserves decays", ctx.exc_witness(e, chain=repr(b), kind=label),
                              mechanism="topology_map raises " + label)
        ctx.case(("rp", n, identical, repr(a), repr(b)), nontrivial=True)

    # ---------------------------------------------------------------- decay groups
    n_grp = ctx.pick(120, 2500)
    for i, rng in ctx.cases("groups", n_grp):
        n = int(rng.choice([3, 4, 4, 5]))
        identical = bool(rng.random() < 0.5)
        tag = "g%d_%d_" % (ctx.seed, i)
        top = BaseParticle("T" + tag)
        two_pairs = bool(identical and n >= 4 and rng.random() < 0.5)
        finals = make_finals(n, identical, BaseParticle, tag, two_pairs=two_pairs)
        ctx.covered("identical_families", 2 if two_pairs else (1 if identical else 0))
        chains = DecayChain.from_particles(top, finals)
        nsel = int(rng.integers(1, min(len(chains), 6) + 1))
        sel = [chains[k] for k in rng.choice(len(chains), size=nsel, replace=False)]
        members = []
        for ci, c in enumerate(sel):
            for rep in range(int(rng.integers(1, 4))):  # several resonances in the same topology
                cc, _ = renamed_copy(c, rng, "%s%d_%d" % (tag, ci, rep))
                members.append(cc)
        members = [members[k] for k in rng.permutation(len(members))]
        desc = {"n": n, "identical_names": identical, "chains": [repr(c) for c in members]}
        try:
            grp = DecayGroup(members)
            structs = grp.topology_structure()
            structs_raw = grp.topology_structure(standard=False)
            maps = grp.get_chains_map()
        except Exception as e:
            mech = "get_chains_map raises with identical-particle names" if identical else "decay group raises"
            ctx.violation("group: one class per chain", ctx.exc_witness(e, **desc), mechanism=mech)
            ctx.case(("grp", repr(members)), nontrivial=True)
            continue
        # reference classes: by particle-set groupings
        ref_cls = {}
        for c in members:
            ref_cls.setdefault(frozenset(ref_groupings(c, False)[0].items()), []).append(c)
        ctx.check("group: classes==reference", len(structs) == len(ref_cls) == len(maps) == len(structs_raw),
                  lambda: dict(desc, lib_classes=len(structs), ref_classes=len(ref_cls)), mechanism="topology_structure classes")
        # every chain in exactly one class; class content equals the reference's
        appear = Counter()
        content_ok = True
        maps_ok = True
        for cls_map, st in zip(maps, structs):
            keyset = frozenset(ref_groupings(st, False)[0].items())
            want = ref_cls.get(keyset, [])
            if sorted(repr(c) for c in cls_map) != sorted(repr(c) for c in want):
                content_ok = False
            for c, m in cls_map.items():
                appear[repr(c)] += 1
                cd = {(repr(d.core), tuple(sorted(repr(o) for o in d.outs))) for d in c}
                for d in st:
                    try:
                        image = (repr(m[d.core]), tuple(sorted(repr(m[o]) for o in d.outs)))
                        if image not in cd or (repr(m[d].core), tuple(sorted(repr(o) for o in m[d].outs))) != image:
                            maps_ok = False
                    except KeyError:
                        maps_ok = False
                # finals and top map to themselves
                for f in finals + [top]:
                    if repr(m.get(f)) != repr(f):
                        maps_ok = False
        once = all(appear[repr(c)] == 1 for c in members) and len(appear) == len({repr(c) for c in members})
        mech_sfx = " (identical-particle names)" if identical else ""
        ctx.check("group: one class per chain", once, lambda: dict(desc, appearances=dict(appear)),
                  mechanism="get_chains_map assignment" + mech_sfx)
        ctx.check("group: classes==reference", content_ok, lambda: desc, mechanism="get_chains_map class content" + mech_sfx)
        ctx.check("group: maps preserve decays", maps_ok, lambda: desc, mechanism="get_chains_map maps" + mech_sfx)
        ctx.case(("grp", repr(members)), nontrivial=len(ref_cls) >= 2 or len(members) >= 3)
        ctx.covered("group_identical_names", identical)
        if i < 3:
            ctx.sample(dict(desc, section="groups", classes=len(ref_cls)))
