"""C09 - uncertainties are first-order propagated from the inverse Hessian."""
import contextlib
import io
import math

import numpy as np

from ..gen import cards, lik

LEVEL = "exploration"
SHARDS = {"quick": 10, "thorough": 16}
TIMEOUT = {"quick": 700, "thorough": 3400}
THREADS = {"quick": 1, "thorough": 1}
RULE = (
    "(d) value+-error arithmetic: thousands of operand pairs over signs and magnitudes for + - * / ** neg log exp apply, scalar "
    "on either side where defined, and cal_err: reported error vs sqrt(sum (df/dx_i sigma_i)^2) with analytic partials, error>=0; "
    "(c) params_trans / vm.error_trans: random differentiable expressions of the model parameters (products, ratios, |c|^2, arg c, "
    "vectors) with random SPD covariance: get_error / get_error_matrix vs a finite-difference Jacobian; (b) fit fractions "
    "(old/new/cal_fitfractions): error of every FF_i, FF_ij vs sqrt(g^T V g) with g = central FD of the fraction recomputed from "
    "reference partial sums; (a) toy likelihoods at the generating point: cal_hesse_error / get_params_error (default, 3-point) "
    "vs sqrt(diag inv H_FD), trans_error_matrix vs diag(y') V diag(y').  non-trivial = both operands uncertain / >=3 free "
    "parameters; distinct = operator+operands / card key+quantity."
)
RULE += '  Also: rank-2 tensors and nested structures through params_trans; VarsManager.minimize / minimize_error on quadratic NLLs with bounds; array-valued numbers through cal_err (inputs unchanged).'
ASSUMPTIONS = [
    "first-order propagation only (the property's claim); operands kept away from singular points (|x|>0.05 for log, / and **; positive bases)",
    "reference Hessian by central differences of the library gradient (h=1e-4): tolerance 2e-3 relative on errors; FD Jacobians 1e-5",
    "Hessian claims only where the FD Hessian is positive definite (otherwise the case is skipped)",
]
REQUIRE = {
    "monitors": {"NumberError error == first-order propagation": 500, "NumberError error >= 0": 500, "cal_err == first-order propagation": 50,
                 "params_trans get_error == sqrt(J V J^T)": 10, "fit fraction error == sqrt(g V g)": 4, "hesse error == sqrt(diag inv H)": 2,
                 "trans_error_matrix == y' V y'": 5},
    "min_nontrivial": 300,
}
LEVEL_TEXT = ("Differential runtime monitor of every error-propagation entry point against independently computed first-order propagation "
              "(analytic partial derivatives for value+-error arithmetic, finite-difference Jacobians/Hessians for model quantities).")
TECHNIQUE = "differential runtime monitor vs analytic / finite-difference first-order error propagation"


def quiet():
    return contextlib.redirect_stdout(io.StringIO())


def run(ctx):
    import tensorflow as tf

    from tf_pwa.err_num import NumberError, cal_err

    # ------------------------------------------------------------ (d) NumberError
    n_e = ctx.pick(3000, 100000)
    for i, rng in ctx.cases("number_error", n_e):
        def val(positive=False):
            v = float(rng.choice([0.07, 0.5, 1.0, 2.0, 3.0, 11.0])) * float(rng.uniform(0.8, 1.2))
            if not positive and rng.random() < 0.5:
                v = -v
            return v
        op = str(rng.choice(["add", "sub", "mul", "div", "pow", "rpow", "pow_scalar", "neg", "log", "exp", "apply", "mul_scalar", "div_scalar", "add_scalar", "sub_scalar"]))
        a, sa = val(positive=op in ("pow", "pow_scalar", "log")), float(rng.uniform(0.01, 0.5))
        b, sb = val(positive=op in ("rpow",)), float(rng.uniform(0.01, 0.5))
        x, y = NumberError(a, sa), NumberError(b, sb)
        try:
            if op == "add":
                r, ref_v, ref_e = x + y, a + b, math.hypot(sa, sb)
            elif op == "sub":
                r, ref_v, ref_e = x - y, a - b, math.hypot(sa, sb)
            elif op == "mul":
                r, ref_v, ref_e = x * y, a * b, math.hypot(b * sa, a * sb)
            elif op == "div":
                r, ref_v, ref_e = x / y, a / b, math.hypot(sa / b, a * sb / (b * b))
            elif op == "pow":
                bb = float(np.clip(b, -3, 3))
                y = NumberError(bb, sb)
                r, ref_v = x**y, a**bb
                ref_e = math.hypot(bb * a ** (bb - 1) * sa, math.log(a) * a**bb * sb)
                b = bb
            elif op == "rpow":
                base = abs(b) + 0.1
                aa = float(np.clip(a, -3, 3))
                x = NumberError(aa, sa)
                r, ref_v, ref_e = base**x, base**aa, abs(math.log(base) * base**aa) * sa
                a, b = aa, base
            elif op == "pow_scalar":
                k = float(rng.choice([-2, -1, 0.5, 2, 3]))
                r, ref_v, ref_e = x**k, a**k, abs(k * a ** (k - 1)) * sa
                b = k
            elif op == "neg":
                r, ref_v, ref_e = -x, -a, sa
            elif op == "log":
                r, ref_v, ref_e = x.log(), math.log(a), sa / abs(a)
            elif op == "exp":
                aa = float(np.clip(a, -3, 3))
                r, ref_v, ref_e = NumberError(aa, sa).exp(), math.exp(aa), math.exp(aa) * sa
                a = aa
            elif op == "apply":
                r = x.apply(np.sin, grad=np.cos if rng.random() < 0.5 else None)
                ref_v, ref_e = math.sin(a), abs(math.cos(a)) * sa
            elif op == "mul_scalar":
                r, ref_v, ref_e = x * b, a * b, abs(b) * sa
            elif op == "div_scalar":
                r, ref_v, ref_e = x / b, a / b, sa / abs(b)
            elif op == "add_scalar":
                r, ref_v, ref_e = x + b, a + b, sa
            else:
                r, ref_v, ref_e = x - b, a - b, sa
        except Exception as e:
            ctx.violation("NumberError error == first-order propagation", ctx.exc_witness(e, op=op, a=(a, sa), b=(b, sb)), mechanism="NumberError raises: " + op)
            continue
        tol = 1e-9 if op != "apply" else 1e-6
        okv = abs(r.value - ref_v) <= 1e-12 * (1 + abs(ref_v))
        oke = abs(abs(r.error) - ref_e) <= tol * (ref_e + 1e-300) + 1e-15
        ctx.check("NumberError error == first-order propagation", bool(okv and oke),
                  lambda: {"op": op, "left": [a, sa], "right": [b, sb], "lib": [r.value, r.error], "ref": [ref_v, ref_e]}, mechanism="NumberError first-order error: " + op)
        ctx.check("NumberError error >= 0", bool(r.error >= 0), lambda: {"op": op, "left": [a, sa], "right": [b, sb], "lib_error": r.error},
                  mechanism="NumberError negative error: " + op)
        ctx.case(("ne", op, round(a, 6), round(b, 6)), nontrivial=op in ("add", "sub", "mul", "div", "pow"))
        ctx.covered("operator", op)
        if i % 20 == 0:
            f = lambda u, v, w: u * v / w + np.sin(u)
            a, b = val(), val()
            x = NumberError(a, sa)
            c, sc = val(), float(rng.uniform(0.01, 0.3))
            r = cal_err(f, x, NumberError(b, sb), NumberError(c, sc))
            g = [b / c + math.cos(a), a / c, -a * b / c**2]
            ref = math.sqrt(sum((gi * si) ** 2 for gi, si in zip(g, [sa, sb, sc])))
            ctx.check("cal_err == first-order propagation", abs(r.error - ref) <= 1e-6 * ref and r.error >= 0, lambda: {"lib": r.error, "ref": ref, "args": [a, b, c]},
                      mechanism="cal_err")
            r2 = cal_err(f, x, b, NumberError(c, sc), grad=lambda u, v, w: [v / w + np.cos(u), u / w, -u * v / w**2])
            ref2 = math.sqrt((g[0] * sa) ** 2 + (g[2] * sc) ** 2)
            ctx.check("cal_err == first-order propagation", abs(r2.error - ref2) <= 1e-9 * ref2, lambda: {"lib": r2.error, "ref": ref2}, mechanism="cal_err with grad and a constant")
            # array-valued numbers (several measurements propagated at once, also 0-d arrays): same formula element-wise, and the caller's
            # values are left as they were
            av, bv = np.array([a, a + 0.7, 2 * a]), np.array([b, b - 0.4, 0.5 * b])
            sav, sbv = np.array([sa, 2 * sa, 0.5 * sa]), np.array([sb, sb, 3 * sb])
            xa, xb = NumberError(av.copy(), sav), NumberError(bv.copy(), sbv)
            x0d = NumberError(np.array(c), np.array(sc))
            ra = cal_err(lambda u, v, w: u * v + w * u, xa, xb, x0d)
            refa = np.sqrt(((bv + c) * sav) ** 2 + (av * sbv) ** 2 + (av * sc) ** 2)
            unchanged = np.array_equal(np.asarray(xa.value), av) and np.array_equal(np.asarray(xb.value), bv) and float(np.asarray(x0d.value)) == c
            okv = np.allclose(np.asarray(ra.error), refa, rtol=1e-7, atol=0)
            ctx.check("cal_err == first-order propagation", bool(okv and unchanged),
                      lambda: {"lib_error": np.asarray(ra.error), "ref_error": refa, "inputs_unchanged": bool(unchanged), "first_input_after": np.asarray(xa.value), "first_input_before": av},
                      mechanism="cal_err with array-valued numbers" + ("" if unchanged else ": the caller's values are modified"))
        if i < 3:
            ctx.sample({"section": "number_error", "op": op, "left": [a, sa], "right": [b, sb], "lib": [r.value, r.error], "ref": [ref_v, ref_e]})

    # ------------------------------------------------------------ (c) params_trans and (b) fit fractions on cards
    from tf_pwa.applications import fit_fractions

    n_c = ctx.pick(20, 200)
    for i, rng in ctx.cases("model_errors", n_c, budget_s=ctx.pick(300, 2000)):
        tag = "_c09s%di%d" % (ctx.seed, i)
        try:
            card = cards.CardGen(rng, tag, nbody=3, n_chains=(2, 3), res_per_slot=(1, 1), final_j2=(0, 0, 1), models=("default",), decay_opts_prob=0.0).make()
            with quiet():
                cfg = cards.load(card)
                amp = cfg.get_amplitude()
                amp.set_params(cards.random_params(amp, (ctx.seed, i)))
        except Exception as e:
            ctx.count("card_failed")
            continue
        vm = amp.vm
        tv = list(vm.trainable_vars)
        n = len(tv)
        if n < 3:
            continue
        A = rng.normal(size=(n, n))
        V = A @ A.T / n + 0.05 * np.eye(n)
        V *= 0.01
        x0 = np.array([float(vm.variables[k].numpy()) for k in tv])
        ctx.context = {"card": cards.short(card), "index": i}

        # ---- (c) expressions of the parameters
        cplx = [k[:-1] for k in tv if k.endswith("r") and k[:-1] + "i" in tv][:3]
        reals = tv[:4]
        exprs = []
        if len(reals) >= 3:
            a_, b_, c_ = reals[:3]
            exprs.append(("a*b/c", lambda p: p[a_] * p[b_] / p[c_], [a_, b_, c_]))
            exprs.append(("vector(a^2, a+b, sin(c))", lambda p: tf.stack([p[a_] ** 2, p[a_] + p[b_], tf.sin(p[c_])]), [a_, b_, c_]))
            # a table of derived quantities (rank-2 tensor, not symmetric under transposition) and nested structures of tensors
            exprs.append(("matrix(2x3)", lambda p: tf.stack([tf.stack([p[a_] ** 2, p[a_] * p[b_], tf.sin(p[c_])]),
                                                           tf.stack([p[a_] + 3 * p[b_], p[b_] / p[c_], p[c_] ** 3])]), [a_, b_, c_]))
            exprs.append(("list(scalar, vector, matrix(2x2))", lambda p: [p[a_] * p[b_], tf.stack([p[a_], p[b_] ** 2, p[c_]]),
                                                                       tf.stack([tf.stack([p[a_], 2 * p[b_]]), tf.stack([p[c_] * p[a_], p[b_] - p[c_]])])], [a_, b_, c_]))
        for c0 in cplx[:2]:
            exprs.append(("|c|^2 (polar r,phi -> r^2)", lambda p, c0=c0: (p[c0 + "r"] * tf.cos(p[c0 + "i"])) ** 2 + (p[c0 + "r"] * tf.sin(p[c0 + "i"])) ** 2, [c0 + "r", c0 + "i"]))
            exprs.append(("re(c)*phi", lambda p, c0=c0: p[c0 + "r"] * tf.cos(p[c0 + "i"]) * p[c0 + "i"], [c0 + "r", c0 + "i"]))
        cfg.inv_he = V
        for ename, fexp, used in exprs:
            try:
                with quiet():
                    with cfg.params_trans() as pt:
                        val_ = fexp(pt)
                    structured = isinstance(val_, (list, tuple, dict)) or val_.shape.rank >= 2
                    err_raw = pt.get_error(val_, keep=True)

                    def flat_(x_):
                        if isinstance(x_, dict):
                            return np.concatenate([flat_(v_) for v_ in x_.values()])
                        if isinstance(x_, (list, tuple)):
                            return np.concatenate([flat_(v_) for v_ in x_])
                        return np.asarray(x_, dtype=float).ravel()

                    def shapes_(x_):
                        if isinstance(x_, dict):
                            return {k_: shapes_(v_) for k_, v_ in x_.items()}
                        if isinstance(x_, (list, tuple)):
                            return [shapes_(v_) for v_ in x_]
                        return list(np.shape(x_))

                    same_struct = shapes_(err_raw) == shapes_(val_)
                    err = flat_(err_raw)
                    em = None if structured else np.asarray(pt.get_error_matrix(val_ if val_.shape.rank else [val_]))
                # FD Jacobian
                def f_np(xv):
                    for k_, v_ in zip(tv, xv):
                        vm.variables[k_].assign(v_)
                    return flat_(fexp(vm.variables))
                J = np.zeros((len(flat_(val_)), n))
                h = 1e-6
                for j in range(n):
                    xp, xm = x0.copy(), x0.copy()
                    xp[j] += h
                    xm[j] -= h
                    J[:, j] = (f_np(xp) - f_np(xm)) / (2 * h)
                f_np(x0)
                cov = J @ V @ J.T
                ref = np.sqrt(np.diag(cov))
                ok = same_struct and np.allclose(np.atleast_1d(err), ref, rtol=1e-5, atol=1e-12) and (em is None or np.allclose(em, cov, rtol=1e-5, atol=1e-12))
                ctx.check("params_trans get_error == sqrt(J V J^T)", bool(ok), lambda: {"expression": ename, "lib_error": err, "ref_error": ref, "card": cards.short(card)},
                          mechanism="params_trans error: " + ename.split(" ")[0])
                ctx.case(("pt", ename, cards.card_digest_key(card)), nontrivial=True)
            except Exception as e:
                ctx.violation("params_trans get_error == sqrt(J V J^T)", ctx.exc_witness(e, expression=ename, card=cards.short(card)), mechanism="params_trans raises")
        # ---- (b) fit fractions
        ps = cards.events(card, 40, rng, classes=False)
        with quiet():
            mc = cfg.data.cal_angle([np.ascontiguousarray(p) for p in ps])
        w = rng.uniform(0.5, 1.5, 40)
        mc["weight"] = w
        dg = amp.decay_group
        res_names = [str(r) for r in dg.resonances]
        chains_of = {r: [j for j, c in enumerate(dg.chains) if any(str(p) == r for p in c.inner)] for r in res_names}
        full = list(range(len(dg.chains)))

        def ref_fracs(xv):
            for k_, v_ in zip(tv, xv):
                vm.variables[k_].assign(v_)
            singles = []
            for k in full:
                dg.set_used_chains([k])
                singles.append(np.asarray(dg.get_amp3(mc)))
            dg.set_used_chains(full)
            integ = lambda sel: float(np.sum(w * np.sum(np.abs(sum(singles[j] for j in sel)) ** 2, axis=tuple(range(1, singles[0].ndim)))))
            tot = integ(full)
            out = {}
            for a_i, ra in enumerate(res_names):
                out[ra] = integ(chains_of[ra]) / tot
            for a_i, ra in enumerate(res_names):
                for rb in res_names[:a_i]:
                    out[(ra, rb)] = integ(sorted(set(chains_of[ra]) | set(chains_of[rb]))) / tot - out[ra] - out[rb]
            return out

        try:
            base = ref_fracs(x0)
            G = {k: np.zeros(n) for k in base}
            h = 1e-5
            for j in range(n):
                xp, xm = x0.copy(), x0.copy()
                xp[j] += h
                xm[j] -= h
                fp_, fm_ = ref_fracs(xp), ref_fracs(xm)
                for k in base:
                    G[k][j] = (fp_[k] - fm_[k]) / (2 * h)
            ref_fracs(x0)
            ref_err = {k: math.sqrt(max(G[k] @ V @ G[k], 0.0)) for k in base}
            with quiet():
                old = fit_fractions(amp, mc, V, {}, 17, res_names, method="old")
                new = fit_fractions(amp, mc, V, {}, 17, res_names, method="new")
                f_new, e_new = new.get_frac(error_matrix=V, sum_diag=False)
                # a report is a pure function of the integrated object: asking again (with and without sum_diag) must not change it
                new.get_frac(error_matrix=V, sum_diag=True)
                f_new2, e_new2 = new.get_frac(error_matrix=V, sum_diag=False)
                cfg.inv_he = V
                cl = cfg.cal_fitfractions(mcdata=mc, res=res_names, batch=13)
            for label, errs in (("old", old[1]), ("new", e_new), ("new (third report of the same object)", e_new2), ("ConfigLoader.cal_fitfractions", cl[1])):
                worst = 0.0
                bad = None
                for k in base:
                    if k not in errs:
                        worst, bad = np.inf, ("missing", k)
                        continue
                    d = abs(float(errs[k]) - ref_err[k]) / (ref_err[k] + 1e-6)  # absolute floor: fractions that vanish identically carry only FD noise
                    if d > worst:
                        worst, bad = d, (str(k), float(errs[k]), ref_err[k])
                ctx.dev("fit fraction error rel dev", worst, 1e-4)
                ctx.check("fit fraction error == sqrt(g V g)", worst < 1e-4, lambda: {"method": label, "worst": bad, "card": cards.short(card)}, mechanism="fit fraction error: " + label)
            ctx.case(("ff", cards.card_digest_key(card)), nontrivial=len(res_names) >= 2)
        except Exception as e:
            ctx.violation("fit fraction error == sqrt(g V g)", ctx.exc_witness(e, card=cards.short(card)), mechanism="fit fraction error raises")
        # ---- trans_error_matrix with bounds installed
        from tf_pwa.variable import Bound

        bnd = {}
        for k_ in tv[:3]:
            v_ = float(vm.variables[k_].numpy())
            bnd[k_] = [(v_ - 1.0, v_ + 2.0), (v_ - 1.0, None), (None, v_ + 2.0)][int(rng.integers(3))]
        vm.set_bound(bnd)
        try:
            xs = np.array(vm.get_all_val(True))
            Vy = vm.trans_error_matrix(V, xs)
            dy = np.ones(n)
            for j, k_ in enumerate(tv):
                if k_ in bnd:
                    b_ = Bound(*bnd[k_])
                    hh = 1e-6
                    dy[j] = (b_.get_x2y(xs[j] + hh) - b_.get_x2y(xs[j] - hh)) / (2 * hh)
            ref = dy[:, None] * V * dy[None, :]
            ctx.check("trans_error_matrix == y' V y'", bool(np.allclose(Vy, ref, rtol=1e-6, atol=1e-14)), lambda: {"bounds": {k_: list(v_) for k_, v_ in bnd.items()}},
                      mechanism="trans_error_matrix")
        finally:
            vm.remove_bound()
        if i < ctx.nshards:
            ctx.sample({"section": "model_errors", "card": cards.short(card), "n_free": n, "expressions": [e[0] for e in exprs], "ref_ff_errors": {str(k): v for k, v in list(ref_err.items())[:3]}}, limit=2)

    # ------------------------------------------------------------ (a') the parameter manager's own fit: VarsManager.minimize / minimize_error on a
    # quadratic NLL 0.5 (v-c)^T A (v-c) with the minimum inside the bounds: the reported errors are sqrt(diag A^-1) in the physical parameters
    from tf_pwa.variable import VarsManager

    n_vm = ctx.pick(24, 400)
    for i, rng in ctx.cases("vm_minimize", n_vm):
        nv = int(rng.integers(2, 5))
        Aq = rng.normal(size=(nv, nv))
        Aq = Aq @ Aq.T / nv + 0.3 * np.eye(nv)
        cq = rng.uniform(-1.0, 1.0, nv)
        vmq = VarsManager()
        names_q = ["q%d" % k for k in range(nv)]
        for k_, nm_ in enumerate(names_q):
            vmq.add_real_var(nm_, value=float(cq[k_] + rng.uniform(-0.3, 0.3)))
        bnd = {}
        for k_, nm_ in enumerate(names_q):
            u = rng.random()
            if u < 0.45:
                lo_, hi_ = float(cq[k_] - rng.uniform(0.5, 2.0)), float(cq[k_] + rng.uniform(0.5, 2.0))
                bnd[nm_] = [(lo_, hi_), (lo_, None), (None, hi_)][int(rng.integers(3))]
        if i % 4 == 0:
            bnd = {}
        if bnd:
            vmq.set_bound(bnd)
        At, ct = tf.constant(Aq), tf.constant(cq)

        def fq():
            v = tf.stack([vmq.variables[nm_] for nm_ in names_q]) - ct
            return 0.5 * tf.reduce_sum(v * tf.linalg.matvec(At, v))

        method = ["BFGS", "L-BFGS-B"][i % 2]
        desc = {"A": Aq, "minimum": cq, "bounds": bnd, "method": method}
        try:
            with quiet():
                ret = vmq.minimize(fq, method=method)
                x_min = np.array([float(vmq.variables[nm_].numpy()) for nm_ in names_q])
                if np.max(np.abs(x_min - cq)) > 1e-4:
                    ctx.count("vm_minimize not converged (not judged)")
                    continue
                ret.hess_inv = None  # the exact route of minimize_error (second derivatives of the NLL)
                err = np.asarray(vmq.minimize_error(fq, ret), dtype=float)
            ref = np.sqrt(np.diag(np.linalg.inv(Aq)))
            dv = float(np.max(np.abs(err - ref) / ref))
            ctx.dev("vm.minimize_error vs sqrt(diag inv A)", dv, 1e-5)
            ctx.check("hesse error == sqrt(diag inv H)", dv < 1e-5, lambda: dict(desc, lib_error=err, ref_error=ref),
                      mechanism="VarsManager.minimize_error" + (" (bounded parameters)" if bnd else ""))
            ctx.case(("vmq", i), nontrivial=bool(bnd))
            ctx.covered("vm_minimize_bounds", bool(bnd))
        except Exception as e:
            ctx.violation("hesse error == sqrt(diag inv H)", ctx.exc_witness(e, **desc), mechanism="VarsManager.minimize / minimize_error raises")

    # ------------------------------------------------------------ (a) Hesse errors on toy likelihoods
    n_h = ctx.pick(10, 60)
    for i, rng in ctx.cases("hesse", n_h, budget_s=ctx.pick(300, 2000)):
        tag = "_c09Hs%di%d" % (ctx.seed, i)
        try:
            card = cards.CardGen(rng, tag, nbody=3, n_chains=(2, 2), res_per_slot=(1, 1), final_j2=(0, 0), res_j2_int=(0, 2), top_j2=(0,), models=("default",), decay_opts_prob=0.0).make()
            stiff = i % 3 == 1
            if stiff:
                # a floated mass with a tight (PDG-like) Gaussian constraint: positive definite Hessian with condition number ~1e8..1e10
                r0 = card["meta"]["resonances"][0]
                fmass = [f["mass"] for f in card["meta"]["finals"]]
                lo_ = sum(fmass[j] for j in r0["slot"])
                if lo_ + 0.3 < r0["m0"] < card["meta"]["top"]["mass"] - (sum(fmass) - lo_) - 0.05:
                    card["config"]["particle"][r0["name"]].update({"float": "m", "gauss_constr": {"m": 1e-5}})
                else:
                    stiff = False
            ctx.covered("stiff_hessian", stiff)
            # every third case: a simultaneous fit of two data sets (CombineFCN) with a Gaussian constraint on a floated mass
            two_sets = i % 3 == 2
            if two_sets:
                r0 = card["meta"]["resonances"][0]
                fmass = [f["mass"] for f in card["meta"]["finals"]]
                lo_ = sum(fmass[j] for j in r0["slot"])
                if lo_ + 0.3 < r0["m0"] < card["meta"]["top"]["mass"] - (sum(fmass) - lo_) - 0.05:
                    card["config"]["particle"][r0["name"]].update({"float": "m", "gauss_constr": {"m": 0.01}})
            ctx.covered("data_sets", 2 if two_sets else 1)
            with quiet():
                cfg = cards.load(card)
                amp = cfg.get_amplitude()
                amp.set_params(cards.random_params(amp, (ctx.seed, i)))
        except Exception as e:
            ctx.count("card_failed")
            continue
        # data from the model itself (hit and miss), so that the generating point is close to a minimum
        ps = cards.events(card, 6000, rng, classes=False)
        with quiet():
            big = cfg.data.cal_angle([np.ascontiguousarray(p) for p in ps])
            dens = np.asarray(amp(big))
        keep = rng.random(6000) * dens.max() < dens
        idx = np.where(keep)[0][:500]
        if len(idx) < 150:
            ctx.count("hesse_too_few_toy_events")
            continue
        with quiet():
            if two_sets:
                h_ = len(idx) // 2
                datas = [cfg.data.cal_angle([np.ascontiguousarray(p[idx[:h_]]) for p in ps]), cfg.data.cal_angle([np.ascontiguousarray(p[idx[h_:]]) for p in ps])]
                phsps = [cfg.data.cal_angle([np.ascontiguousarray(p) for p in cards.events(card, 900, rng, classes=False)]) for _ in range(2)]
            else:
                datas = [cfg.data.cal_angle([np.ascontiguousarray(p[idx]) for p in ps])]
                phsps = [cfg.data.cal_angle([np.ascontiguousarray(p) for p in cards.events(card, 1500, rng, classes=False)])]
            bgs = [None] * len(datas)
            fcn = cfg.get_fcn([datas, phsps, bgs, None], batch=400)
        tv = list(amp.vm.trainable_vars)
        n = len(tv)
        x0 = np.array([float(amp.vm.variables[k].numpy()) for k in tv])
        h = 1e-4
        H = np.zeros((n, n))
        with quiet():
            for j in range(n):
                xp, xm = x0.copy(), x0.copy()
                xp[j] += h
                xm[j] -= h
                gp = np.asarray(fcn.nll_grad(dict(zip(tv, xp)))[1], dtype=float)
                gm = np.asarray(fcn.nll_grad(dict(zip(tv, xm)))[1], dtype=float)
                H[j] = (gp - gm) / (2 * h)
            fcn.nll_grad(dict(zip(tv, x0)))
        H = 0.5 * (H + H.T)
        ev = np.linalg.eigvalsh(H)
        if ev.min() <= 1e-12 * ev.max() or (not stiff and ev.min() <= 1e-6 * ev.max()):
            ctx.count("hesse_skipped_not_positive_definite")
            continue
        ref = np.sqrt(np.diag(np.linalg.inv(H)))
        ctx.context = {"card": cards.short(card), "index": i}
        from tf_pwa.applications import cal_hesse_error

        with quiet():
            e1, inv1 = cal_hesse_error(fcn, {}, save_npy=False)
            e2 = cfg.get_params_error(data=datas, phsp=phsps, bg=bgs, batch=400, method="hesse")
            e3 = cfg.get_params_error(data=datas, phsp=phsps, bg=bgs, batch=400)
            e4 = cfg.get_params_error(data=datas, phsp=phsps, bg=bgs, batch=400, method="3-point")
            # numerically corrected Hessian entries for user-named parameters (diagonal and off-diagonal branches of cal_hesse_correct)
            corr = [tv[int(j_)] for j_ in rng.choice(n, size=min(2, n), replace=False)]
            e5 = cfg.get_params_error(data=datas, phsp=phsps, bg=bgs, batch=400, method="correct", correct_params=corr)
        for label, err in (("get_params_error(correct, correct_params)", np.array([e5[k] for k in tv])), ("cal_hesse_error", np.array(e1)), ("get_params_error(hesse)", np.array([e2[k] for k in tv])),
                           ("get_params_error(default)", np.array([e3[k] for k in tv])), ("get_params_error(3-point)", np.array([e4[k] for k in tv]))):
            worst = float(np.max(np.abs(err - ref) / ref))
            ctx.dev("hesse error rel dev", worst, 2e-3)
            ctx.check("hesse error == sqrt(diag inv H)", worst < 2e-3, lambda: {"method": label, "lib": err, "ref": ref, "card": cards.short(card)}, mechanism="hesse error: " + label + (" [two data sets, Gaussian constraint]" if two_sets and cfg.gauss_constr_dic else ""))
        ctx.case(("hesse", cards.card_digest_key(card)), nontrivial=n >= 3)
        if i < 2:
            ctx.sample({"section": "hesse", "card": cards.short(card), "n_free": n, "ref_errors": ref, "cal_hesse_error": e1})
