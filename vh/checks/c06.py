"""C06 - the negative log-likelihood equals its defining formula."""
import copy
import gc
import os

import numpy as np

from ..gen import cards, lik

LEVEL = "exploration"
SHARDS = {"quick": 14, "thorough": 16}
TIMEOUT = {"quick": 700, "thorough": 3400}
THREADS = {"quick": 1, "thorough": 1}
RULE = (
    "per case: one generated 3-body card (2-3 chains, spins incl. 1/2) x parameters by name x toy data/phsp/bg samples with "
    "{unit, positive, mixed-sign, zero-containing} event weights x {unit, positive, mixed-sign} phase-space weights x likelihood model (rotating over default, extended, cfit, "
    "cfit_cached, cfit_extended, cached_int, cached_amp, simple) x batch sizes {n, n-1, ceil(n/2), 7, 50, 65000}: the value "
    "from FCN.__call__, nll_grad[0], nll_grad_hessian[0] vs the NumPy formula evaluated on per-event densities from one "
    "un-batched eager call; common rescaling of all couplings (non-extended); CombineFCN vs the sum of its parts; Gaussian "
    "constraints; a share of cases goes through files (ConfigLoader.get_all_data with *_weight, bg_weight, *_bg_value, "
    "*_eff_value).  non-trivial = non-uniform weights or a batch that does not divide n; distinct = (model, weight kind, "
    "card key, batch set)."
)
RULE += '  Also: simultaneous fits with the background weight / fraction given once for all data sets or per data set.'
ASSUMPTIONS = [
    "reference densities are the library's own per-event densities from one un-batched eager call (the amplitude is C01-C05's business)",
    "cases whose smallest logged argument is below 1e-5 are skipped (the library continues ln x by a parabola below 1e-6: clip_log)",
    "tolerance 1e-9 relative (+1e-9 absolute)",
    "the legacy inject_mc variant is not claimed by the property and not driven",
]
REQUIRE = {
    "monitors": {"NLL == formula": 20, "NLL independent of batch size": 20, "value consistent across entry points": 20,
                 "invariant under common rescaling": 5, "CombineFCN == sum of parts": 3, "file loader NLL == formula": 2,
                 "gaussian constraint term": 3, "BaseModel.nll on raw weights == formula": 2},
    "cover": {"model": ["default", "extended", "cfit", "cfit_cached", "cfit_extended", "cached_int", "cached_amp", "simple", "simple_cfit"],
              "phsp_weights": ["ones", "positive", "mixed_mild"]},
    "min_nontrivial": {"quick": 20, "thorough": 300},
}
LEVEL_TEXT = ("Differential runtime monitor: every NLL value the likelihood objects return (FCN.__call__, nll_grad, nll_grad_hessian, "
              "CombineFCN) on generated weighted samples is compared with the defining formula evaluated in NumPy, across all eight "
              "likelihood models, batch sizes and weight classes; plus rescaling and sum-of-parts metamorphics.")
TECHNIQUE = "differential runtime monitor vs NumPy reference formula + batch/rescaling/sum metamorphics"

MODEL_NAMES = list(lik.MODELS)
WEIGHT_KINDS = ["ones", "positive", "mixed", "zeros"]


def rel(a, b):
    return abs(a - b) / (1e-9 * (abs(b) + 1.0))


def make_card(rng, tag):
    return cards.CardGen(rng, tag, nbody=3, n_chains=(2, 3), final_j2=(0, 0, 1, 2), res_per_slot=(1, 1), models=("default", "BW"),
                         decay_opts_prob=0.1).make()


def run(ctx):
    import tensorflow as tf

    n_cases = ctx.pick(36, 1500)
    for i, rng in ctx.cases("formula", n_cases, budget_s=ctx.pick(480, 2800)):
        tag = "_c06s%di%d" % (ctx.seed, i)
        model = MODEL_NAMES[i % len(MODEL_NAMES)]
        wkind = WEIGHT_KINDS[(i // len(MODEL_NAMES)) % len(WEIGHT_KINDS)]
        opts, kind = lik.MODELS[model]
        opts = dict(opts)
        w_bkg = float(rng.choice([0.1, 0.35, 0.8]))
        if kind == "bg":
            opts["bg_weight"] = w_bkg
        try:
            card = make_card(rng, tag)
        except RuntimeError:
            continue
        gauss = None
        if i % 5 == 0:
            # Gaussian constraint on a (fixed) resonance mass and on a coupling
            r0 = card["meta"]["resonances"][0]
            card["config"].setdefault("constrains", {})["gauss_constr"] = {r0["name"] + "_mass": [r0["m0"] + 0.01, 0.02]}
            gauss = {r0["name"] + "_mass": (r0["m0"] + 0.01, 0.02)}
        ctx.context = {"model": model, "weights": wkind, "card": cards.short(card), "index": i}
        desc = lambda: {"model": model, "weights": wkind, "phsp_weights": phsp_kind, "opts": opts, "config": card["config"], "param_key": [ctx.seed, i]}
        try:
            with lik.quiet():
                cfg = cards.load(card, extra_data=opts)
                amp = cfg.get_amplitude()
            amp.set_params(cards.random_params(amp, (ctx.seed, i)))
            params = {k: float(v) for k, v in amp.get_params().items()}
        except Exception as e:
            ctx.violation("NLL == formula", ctx.exc_witness(e, **desc()), mechanism="likelihood model load raises (%s)" % model)
            continue
        n = int(rng.choice([37, 61, 101]))
        nmc = int(rng.choice([150, 203]))
        cfit = kind == "cfit"
        # cfit models take no separate background sample; weights of zero are legal for every model
        data = lik.make_sample(cfg, card, n, rng, wkind, cfit=cfit)
        phsp_kind = ["positive", "ones", "mixed_mild"][i % 3]
        phsp = lik.make_sample(cfg, card, nmc, rng, phsp_kind, cfit=cfit)
        bg = None
        rot = i % len(MODEL_NAMES) + i // len(MODEL_NAMES)  # model index + round: conditions on it rotate over the models from round to round, whatever the number of models
        if not cfit and rot % 4 != 3:
            bg = lik.make_sample(cfg, card, 23, rng, "ones")
            if rot % 5 == 1:
                bg["weight"] = -rng.uniform(0.05, 0.6, 23)  # background with its own (negative) weights
        bg_frac = opts.get("bg_frac")
        try:
            ref, min_arg = lik.reference_nll(model, amp, data, phsp, bg, w_bkg, bg_frac, gauss, params)
        except Exception as e:
            ctx.violation("NLL == formula", ctx.exc_witness(e, **desc()), mechanism="reference evaluation raised")
            continue
        if not np.isfinite(ref) or not min_arg > 1e-5:
            ctx.count("skipped_ill_conditioned(log argument<1e-5 or non-finite)")
            continue
        n_tot = n + (23 if bg is not None else 0)
        batches = sorted({n_tot, n_tot - 1, (n_tot + 1) // 2, 7, 50, 65000})
        if ctx.tier == 'quick':
            batches = sorted({n_tot - 1, [7, 50, (n_tot + 1) // 2][i % 3], [n_tot, 65000][i % 2]})
        values = {}
        for b in batches:
            try:
                with lik.quiet():
                    fcn = cfg.get_fcn([[data], [phsp], [bg], None], batch=b)
                    v_call = float(fcn({}))
                    v_grad = float(fcn.nll_grad({})[0])
                    v_hess = float(fcn.nll_grad_hessian({})[0]) if b in ((n_tot, 7, 65000) if ctx.tier == 'thorough' else (batches[0],)) else None
                values[b] = (v_call, v_grad, v_hess)
            except Exception as e:
                ctx.violation("NLL == formula", ctx.exc_witness(e, batch=b, n_events=n_tot, **desc()),
                              mechanism="likelihood raises (%s, batch %s n)" % (model, "divides" if n_tot % b == 0 or b >= n_tot else "does not divide"))
                continue
        if not values:
            continue
        worst = max(rel(v[0], ref) for v in values.values())
        ctx.dev("NLL vs formula (dev/tol)", worst, 1.0)
        ctx.check("NLL == formula", worst <= 1.0, lambda: dict(desc(), ref=ref, lib={str(k): v for k, v in values.items()}, n=n_tot), mechanism="NLL formula (%s)" % model)
        vg = [v[1] for v in values.values()]
        wb = max(rel(x, vg[0]) for x in vg)
        ctx.dev("batch dependence (dev/tol)", wb, 1.0)
        ctx.check("NLL independent of batch size", wb <= 1.0, lambda: dict(desc(), lib={str(k): v for k, v in values.items()}, n=n_tot),
                  mechanism="batch dependence (%s)" % model)
        we = max(max(rel(v[1], v[0]), rel(v[2], v[0]) if v[2] is not None else 0.0) for v in values.values())
        ctx.dev("entry points (dev/tol)", we, 1.0)
        ctx.check("value consistent across entry points", we <= 1.0, lambda: dict(desc(), lib={str(k): v for k, v in values.items()}),
                  mechanism="__call__ vs nll_grad vs nll_grad_hessian (%s)" % model)
        if gauss:
            ctx.check("gaussian constraint term", rel(list(values.values())[0][0], ref) <= 1.0, lambda: dict(desc(), ref=ref), mechanism="gaussian constraint")
            # the parameter point is handed over WITH the call (as a minimiser does), a sequence of two points that move the constrained
            # parameter: every value must be the formula at the point of that call
            try:
                gname = list(gauss)[0]
                seq_ok, seq_w = True, []
                if model == "cached_int":
                    raise StopIteration  # the constrained parameter is a resonance mass: cached integrals require fixed line-shape parameters
                for dlt in (0.013, -0.021):
                    pt = dict(params)
                    pt[gname] = params[gname] + dlt
                    with lik.quiet():
                        fcn_s = cfg.get_fcn([[data], [phsp], [bg], None], batch=65000) if dlt > 0 else fcn_s
                        v_c = float(fcn_s(pt))
                        v_g = float(fcn_s.nll_grad(pt)[0])
                    amp.set_params(pt)
                    ref_s, min_s = lik.reference_nll(model, amp, data, phsp, bg, w_bkg, bg_frac, gauss, pt)
                    if min_s > 1e-5 and np.isfinite(ref_s):
                        seq_w.append({"point": {gname: pt[gname]}, "call": v_c, "nll_grad": v_g, "formula": ref_s})
                        seq_ok = seq_ok and rel(v_c, ref_s) <= 1.0 and rel(v_g, ref_s) <= 1.0
                amp.set_params(params)
                if seq_w:
                    ctx.check("gaussian constraint term", seq_ok, lambda: dict(desc(), sequence=seq_w), mechanism="gaussian constraint: value of fcn(x) for a sequence of points (%s)" % model)
            except StopIteration:
                pass
            except Exception as e:
                amp.set_params(params)
                ctx.violation("gaussian constraint term", ctx.exc_witness(e, **desc()), mechanism="gaussian constraint sequence raises (%s)" % model)
        ctx.case((model, wkind, cards.card_digest_key(card), tuple(batches)), nontrivial=wkind != "ones" or any(n_tot % b for b in batches if b < n_tot))
        ctx.covered("model", model)
        ctx.covered("weights", wkind)
        ctx.covered("phsp_weights", phsp_kind)
        # the un-batched building block BaseModel.nll(data, mcdata) on RAW event weights (its own alpha factor is then not 1)
        if model in ("default", "extended") and wkind != "ones":
            try:
                base = fcn.model.model
                with lik.quiet():
                    # (as Model.nll does, both samples carry an explicit float64 weight column)
                    v_base = float(base.nll(dict(data, weight=tf.convert_to_tensor(np.asarray(data["weight"]), dtype="float64")),
                                            dict(phsp, weight=tf.convert_to_tensor(lik.np_w(phsp, nmc), dtype="float64"))))
                ref_b, min_b = lik.reference_nll(model, amp, data, phsp, None, w_bkg, None, None, params)
                if np.isfinite(ref_b) and min_b > 1e-5:
                    ctx.check("BaseModel.nll on raw weights == formula", rel(v_base, ref_b) <= 1.0, lambda: dict(desc(), lib=v_base, ref=ref_b),
                              mechanism="BaseModel.nll raw weights (%s)" % model)
            except Exception as e:
                ctx.violation("BaseModel.nll on raw weights == formula", ctx.exc_witness(e, **desc()), mechanism="BaseModel.nll raises (%s)" % model)
        # rescaling invariance (non-extended)
        if "extended" not in model and rot % 2 == 0:
            s = float(rng.uniform(0.3, 3.0))
            p2 = {k: (v * s if k.endswith("total_0r") else v) for k, v in params.items()}
            with lik.quiet():
                fcn = cfg.get_fcn([[data], [phsp], [bg], None], batch=50)
                v1 = float(fcn.nll_grad(params)[0])
                v2 = float(fcn.nll_grad(p2)[0])
                v3 = float(fcn(p2))
            amp.set_params(params)
            ctx.check("invariant under common rescaling", rel(v2, v1) <= 10 and rel(v3, v1) <= 10, lambda: dict(desc(), scale=s, before=v1, after=(v2, v3)),
                      mechanism="rescaling (%s)" % model)
        # simultaneous fit: CombineFCN = sum of the parts
        rnd_ = i // len(MODEL_NAMES)
        if ((i % len(MODEL_NAMES) + rnd_) % 2 == 0 or gauss) and model in ("default", "extended", "cached_int", "cfit", "cfit_extended", "simple"):
            try:
                data2 = lik.make_sample(cfg, card, 29, rng, "positive", cfit=cfit)
                phsp2 = lik.make_sample(cfg, card, 77, rng, "ones", cfit=cfit)
                with lik.quiet():
                    # the background weight / fraction of a simultaneous fit is given once for all data sets (a plain number) or per data set (a list)
                    as_list = (rnd_ // 2) % 2 == 0  # de-aliased from the condition above: every model meets both forms within four rounds
                    ctx.covered("combine_background_given_as", "list" if as_list else "one number for all data sets")
                    if kind == "bg":
                        cfg2 = cards.load(card, extra_data=dict(opts, bg_weight=[w_bkg, w_bkg] if as_list else w_bkg))
                    else:
                        cfg2 = cards.load(card, extra_data=dict(opts, bg_frac=[bg_frac, bg_frac] if as_list else bg_frac))
                    amp2 = cfg2.get_amplitude()
                    amp2.set_params(params)
                    comb = cfg2.get_fcn([[data, data2], [phsp, phsp2], [bg, None], None], batch=31)
                    vc, gc_ = comb.nll_grad({})
                    vc0 = float(comb({}))
                    vch = float(comb.nll_grad_hessian({})[0])
                ref2, min2 = lik.reference_nll(model, amp2, data2, phsp2, None, w_bkg, bg_frac, None, params)
                ref1, _ = lik.reference_nll(model, amp2, data, phsp, bg, w_bkg, bg_frac, None, params)
                g_extra = 0.0
                if gauss:
                    g_extra = sum((params[k] - mu) ** 2 / (2 * sg**2) for k, (mu, sg) in gauss.items())
                want = ref1 + ref2 + g_extra
                if min2 > 1e-5:
                    ctx.check("CombineFCN == sum of parts", rel(float(vc), want) <= 1.0 and rel(vc0, want) <= 1.0 and rel(vch, want) <= 1.0,
                              lambda: dict(desc(), combined=(float(vc), vc0, vch), parts=(ref1, ref2, g_extra)), mechanism="CombineFCN (%s)%s" % (model, "" if as_list else ", background fraction given once for all data sets"))
            except Exception as e:
                ctx.violation("CombineFCN == sum of parts", ctx.exc_witness(e, **desc()), mechanism="CombineFCN raises (%s)" % model)
        if i < ctx.nshards:
            ctx.sample({"model": model, "weights": wkind, "n_data": n, "n_phsp": nmc, "n_bg": 0 if bg is None else 23, "batches": batches,
                        "reference_nll": ref, "library_nll": {str(k): v for k, v in values.items()}}, limit=3)
        gc.collect()

    # ------------------------------------------------------------ through files (loader sign / weight conventions)
    n_files = ctx.pick(8, 120)
    for i, rng in ctx.cases("files", n_files, budget_s=ctx.pick(200, 900)):
        tag = "_c06Fs%di%d" % (ctx.seed, i)
        model = ["default", "cfit", "extended", "cfit_extended"][i % 4]
        opts, kind = lik.MODELS[model]
        try:
            card = make_card(rng, tag)
        except RuntimeError:
            continue
        cfit = kind == "cfit"
        names = [f["name"] for f in card["meta"]["finals"]]
        d = os.path.join(os.getcwd(), "files_%d" % i)
        os.makedirs(d, exist_ok=True)

        def write(name, n, with_w):
            ps = cards.events(card, n, rng, classes=False)
            arr = np.stack(ps).transpose((1, 0, 2)).reshape((-1, 4))
            np.savetxt(os.path.join(d, name + ".dat"), arr)
            out = {"ps": ps}
            if with_w:
                w = rng.uniform(0.3, 1.7, n)
                np.savetxt(os.path.join(d, name + "_weight.dat"), w)
                out["w"] = w
            if cfit:
                out["bg_value"] = rng.uniform(0.5, 1.5, n)
                out["eff_value"] = rng.uniform(0.4, 1.0, n)
                np.savetxt(os.path.join(d, name + "_bg_value.dat"), out["bg_value"])
                np.savetxt(os.path.join(d, name + "_eff_value.dat"), out["eff_value"])
            return out

        D = write("data", 53, i % 2 == 0)
        P = write("phsp", 131, i % 3 == 0)
        B = None if cfit else write("bg", 19, i % 2 == 1)
        w_bkg = 0.4
        dopts = dict(opts)
        dopts.update({"data": [os.path.join(d, "data.dat")], "phsp": [os.path.join(d, "phsp.dat")]})
        if "w" in D:
            dopts["data_weight"] = [os.path.join(d, "data_weight.dat")]
        if "w" in P:
            dopts["phsp_weight"] = [os.path.join(d, "phsp_weight.dat")]
        if B is not None:
            dopts["bg"] = [os.path.join(d, "bg.dat")]
            dopts["bg_weight"] = w_bkg
            if "w" in B:
                dopts["bg_weight"] = [os.path.join(d, "bg_weight.dat")] if False else w_bkg
        if cfit:
            for nm in ("data", "phsp"):
                dopts[nm + "_bg_value"] = os.path.join(d, nm + "_bg_value.dat")
                dopts[nm + "_eff_value"] = os.path.join(d, nm + "_eff_value.dat")
        ctx.context = {"model": model, "files": True, "index": i}
        try:
            with lik.quiet():
                cfg = cards.load(card, extra_data=dopts)
                amp = cfg.get_amplitude()
                amp.set_params(cards.random_params(amp, (ctx.seed, i)))
                params = {k: float(v) for k, v in amp.get_params().items()}
                fcn = cfg.get_fcn(batch=29)
                v_call = float(fcn({}))
                v_grad = float(fcn.nll_grad({})[0])
                # independent in-memory samples for the reference
                def mem(X):
                    dd = cfg.data.cal_angle([np.ascontiguousarray(p) for p in X["ps"]])
                    if "w" in X:
                        dd["weight"] = X["w"]
                    for k in ("bg_value", "eff_value"):
                        if k in X:
                            dd[k] = X[k]
                    return dd
                ref, min_arg = lik.reference_nll(model, amp, mem(D), mem(P), None if B is None else mem({"ps": B["ps"]}), w_bkg, opts.get("bg_frac"), None, params)
        except Exception as e:
            ctx.violation("file loader NLL == formula", ctx.exc_witness(e, model=model, data_opts={k: v for k, v in dopts.items()}), mechanism="file loader raises (%s)" % model)
            continue
        if min_arg > 1e-5:
            ok = rel(v_call, ref) <= 1.0 and rel(v_grad, ref) <= 1.0
            ctx.check("file loader NLL == formula", ok, lambda: {"model": model, "ref": ref, "lib": (v_call, v_grad), "config": card["config"], "data_opts": dopts},
                      mechanism="file loader NLL (%s)" % model)
            ctx.case(("files", model, i), nontrivial=True)
