"""C12 - rotation-group functions (Wigner D, Clebsch-Gordan, SU(2) angles) are exact."""
import math

import numpy as np

from ..oracle import su2

LEVEL = "exploration"
SHARDS = {"quick": 8, "thorough": 16}
TIMEOUT = {"quick": 400, "thorough": 2400}
RULE = (
    "finite tables enumerated completely (small_d_weight/small_d_matrix for 2j<=8 at 41 beta incl. 0 and pi; "
    "cg_coef for all (j1,m1,j2,m2,J) with M=m1+m2 up to j<=2 quick / j<=4 thorough; every entry of cg_table.json "
    "through get_cg_coef incl. swap and j=0 rules); sampled part: random Euler angles / SU(2) elements per case. "
    "A case is non-trivial when j>=1/2 and the reference value is not in {0,+-1}; distinct = distinct argument tuple."
)
RULE += '  Also: product / inverse on elements that contain boosts, compared with NumPy inverses and the polar-decomposition Wigner rotation.'
ASSUMPTIONS = [
    "double precision, CPU",
    "reference = Wigner/Racah formulas in rational arithmetic and exp(-i beta Jy) (vh/oracle/su2.py), unit-checked on textbook values",
    "get_cg_coef judged only where cg_table.json defines an entry (integer spins j1>=j2>=1), the j=0 rule inside the triangle, and the swap rule",
]
EXHAUSTIVE_PART = "small_d tables 2j<=8; cg_table.json entries; cg_coef argument table (j<=2 quick, j<=4 thorough)"
REQUIRE = {
    "monitors": {
        "small_d_weight==exact": 9,
        "small_d_matrix==exact": 100,
        "cg_coef==racah": 500,
        "get_cg_coef==racah(table)": 1000,
        "D_matrix_conj==expm": 50,
        "D unitary": 50,
        "D group law": 50,
        "D_lambda gather": 20,
        "su2 euler roundtrip": 50,
        "su2 wigner-rotation euler roundtrip": 20,
    },
    "min_nontrivial": 500,
}

TOL = 1e-9


def half(x2):
    """doubled spin -> the python number the library itself passes (int or float)."""
    return x2 // 2 if x2 % 2 == 0 else x2 / 2.0


def run(ctx):
    import tensorflow as tf

    from tf_pwa import cg as lcg
    from tf_pwa import dfun
    from tf_pwa.angle import SU2M

    jmax2 = 8
    # ------------------------------------------------------------ small d tables (exhaustive)
    if ctx.section_active("d_table"):
        betas = np.concatenate([[0.0, math.pi, 1e-9, math.pi - 1e-9], np.linspace(0, math.pi, 37)])
        for j2 in range(0, jmax2 + 1):
            if not ctx.owns(j2):
                continue
            w_lib = np.array(dfun.small_d_weight(j2))
            w_ref = su2.wigner_d_weight_exact(j2)
            ok, worst = ctx.close(w_lib, w_ref, 1e-12, 1e-12)
            ctx.dev("small_d_weight", np.max(np.abs(w_lib - w_ref)), 1e-12)
            ctx.check("small_d_weight==exact", ok, lambda: {"j2": j2, "lib": w_lib, "ref": w_ref},
                      mechanism="small_d_weight")
            d_lib = dfun.small_d_matrix(tf.constant(betas), j2).numpy()
            for ib, b in enumerate(betas):
                ref = su2.wigner_d_exact(j2, b)
                ref2 = su2.wigner_d_expm(j2, b)
                dmax = max(np.max(np.abs(d_lib[ib] - ref)), np.max(np.abs(d_lib[ib] - ref2)))
                ctx.dev("small_d_matrix", dmax, TOL)
                ctx.check("small_d_matrix==exact", dmax < TOL,
                          lambda: {"j2": j2, "beta": b, "lib": d_lib[ib], "ref": ref}, mechanism="small_d_matrix")
                ctx.case(("d", j2, ib), nontrivial=j2 >= 1 and 1e-6 < b < math.pi - 1e-6)
            ctx.covered("d_table_2j", j2)
        ctx.sample({"section": "d_table", "2j": 3, "beta": 0.5, "d_lib_row0": dfun.small_d_matrix(tf.constant(np.array([0.5])), 3).numpy()[0][0]})

    # ------------------------------------------------------------ cg_coef (sympy path), exhaustive argument table
    if ctx.section_active("cg_sympy"):
        jm = ctx.pick(4, 8)
        k = 0
        for j1 in range(0, jm + 1):
            for j2 in range(0, jm + 1):
                Js = list(range(abs(j1 - j2), j1 + j2 + 1, 2))
                # one J outside the triangle on each side (value must be 0)
                extra = [J for J in (abs(j1 - j2) - 2, j1 + j2 + 2) if J >= 0]
                for J in Js + extra:
                    if J > 2 * jm:
                        continue
                    k += 1
                    if not ctx.owns(k):
                        continue
                    for m1 in range(-j1, j1 + 1, 2):
                        for m2 in range(-j2, j2 + 1, 2):
                            M = m1 + m2
                            if abs(M) > J:
                                continue
                            ref = su2.cg_exact(j1, m1, j2, m2, J, M)
                            try:
                                val = lcg.cg_coef(half(j1), half(j2), half(m1), half(m2), half(J), half(M))
                            except Exception as e:
                                ctx.violation("cg_coef==racah", ctx.exc_witness(e, args=(j1, m1, j2, m2, J, M)),
                                              mechanism="cg_coef raises")
                                continue
                            d = abs(val - ref)
                            ctx.dev("cg_coef", d, TOL)
                            ctx.check("cg_coef==racah", d < TOL,
                                      lambda: {"doubled_args(j1,m1,j2,m2,J,M)": (j1, m1, j2, m2, J, M), "lib": val, "ref": ref},
                                      mechanism="cg_coef")
                            ctx.case(("cg", j1, m1, j2, m2, J), nontrivial=abs(ref) not in (0.0, 1.0))
                    ctx.covered("cg_j1j2_doubled", (j1, j2))
        ctx.sample({"section": "cg_sympy", "args_doubled": [2, 0, 2, 0, 4, 0], "ref": su2.cg_exact(2, 0, 2, 0, 4, 0),
                    "lib": lcg.cg_coef(1, 1, 0, 0, 2, 0)})

    # ------------------------------------------------------------ bundled table through get_cg_coef
    if ctx.section_active("cg_table") and ctx.shard == 0:
        tab = lcg.cg_table
        n_tab = 0
        for s1, d1 in tab.items():
            for s2, d2 in d1.items():
                for sm1, d3 in d2.items():
                    for sm2, d4 in d3.items():
                        for sj, d5 in d4.items():
                            for sm, stored in d5.items():
                                j1, j2, m1, m2, j, m = map(int, (s1, s2, sm1, sm2, sj, sm))
                                if m1 + m2 != m:
                                    # entry unreachable through the function (assert), judge raw table
                                    continue
                                n_tab += 1
                                ref = su2.cg_exact(2 * j1, 2 * m1, 2 * j2, 2 * m2, 2 * j, 2 * m)
                                val = lcg.get_cg_coef(j1, j2, m1, m2, j, m)
                                ctx.dev("get_cg_coef(table)", abs(val - ref), TOL)
                                ctx.check("get_cg_coef==racah(table)", abs(val - ref) < TOL,
                                          lambda: {"args": (j1, j2, m1, m2, j, m), "lib": val, "ref": ref},
                                          mechanism="get_cg_coef table")
                                ctx.case(("tab", j1, j2, m1, m2, j), nontrivial=abs(ref) not in (0.0, 1.0))
                                # swap rule j1<j2 with its sign, reached through the function itself
                                if j1 != j2:
                                    val2 = lcg.get_cg_coef(j2, j1, m2, m1, j, m)
                                    ref2 = su2.cg_exact(2 * j2, 2 * m2, 2 * j1, 2 * m1, 2 * j, 2 * m)
                                    ctx.check("get_cg_coef==racah(table)", abs(val2 - ref2) < TOL,
                                              lambda: {"args": (j2, j1, m2, m1, j, m), "lib": val2, "ref": ref2},
                                              mechanism="get_cg_coef swap rule")
        ctx.count("cg_table_entries_checked", n_tab)
        # j = 0 rule inside the triangle
        for j in range(0, 5):
            for m in range(-j, j + 1):
                for args in ((0, j, 0, m, j, m), (j, 0, m, 0, j, m)):
                    val = lcg.get_cg_coef(*args)
                    ctx.check("get_cg_coef==racah(table)", abs(val - 1.0) < TOL, {"args": args, "lib": val, "ref": 1.0},
                              mechanism="get_cg_coef j=0 rule")
        # table symmetric completeness observation (not judged): integer args with nonzero exact value but no entry
        missing = 0
        for j1 in range(1, 5):
            for j2 in range(1, j1 + 1):
                for j in range(j1 - j2, j1 + j2 + 1):
                    for m1 in range(-j1, j1 + 1):
                        for m2 in range(-j2, j2 + 1):
                            if abs(m1 + m2) > j:
                                continue
                            ref = su2.cg_exact(2 * j1, 2 * m1, 2 * j2, 2 * m2, 2 * j, 2 * (m1 + m2))
                            val = lcg.get_cg_coef(j1, j2, m1, m2, j, m1 + m2)
                            if abs(val - ref) > TOL:
                                missing += 1
                                ctx.violation("get_cg_coef==racah(table)", {"args": (j1, j2, m1, m2, j), "lib": val, "ref": ref},
                                              mechanism="get_cg_coef integer domain j1>=j2>=1")
                            else:
                                ctx.check("get_cg_coef==racah(table)", True)
        ctx.sample({"section": "cg_table", "args": [2, 1, -1, 1, 2, 0], "lib": lcg.get_cg_coef(2, 1, -1, 1, 2, 0),
                    "ref": su2.cg_exact(4, -2, 2, 2, 4, 0)})

    # ------------------------------------------------------------ D matrices, sampled
    n_d = ctx.pick(400, 6000)
    for i, rng in ctx.cases("D_sampled", n_d):
        j2 = int(rng.integers(0, jmax2 + 1))
        nev = 6
        al = rng.uniform(-2 * math.pi, 2 * math.pi, nev)
        be = rng.uniform(0, math.pi, nev)
        ga = rng.uniform(-2 * math.pi, 2 * math.pi, nev)
        # poles and their neighbourhoods
        be[0] = 0.0
        be[1] = math.pi
        be[2] = rng.choice([1e-8, math.pi - 1e-8])
        lib = dfun.D_matrix_conj(tf.constant(al), tf.constant(be), tf.constant(ga), j2).numpy()
        worst = 0.0
        for e in range(nev):
            ref = np.conj(su2.wigner_D(j2, al[e], be[e], ga[e]))
            worst = max(worst, np.max(np.abs(lib[e] - ref)))
        ctx.dev("D_matrix_conj", worst, TOL)
        ctx.check("D_matrix_conj==expm", worst < TOL, lambda: {"j2": j2, "alpha": al, "beta": be, "gamma": ga, "dev": worst},
                  mechanism="D_matrix_conj")
        # unitarity
        eye = np.eye(j2 + 1)
        u = max(np.max(np.abs(lib[e] @ lib[e].conj().T - eye)) for e in range(nev))
        ctx.check("D unitary", u < TOL, lambda: {"j2": j2, "dev": u}, mechanism="D unitarity")
        # group law: D(R1) D(R2) = D(R1 R2) with the product's Euler angles from an independent SU(2) extraction
        g = 0.0
        for e in range(nev - 1):
            u1 = su2.rz(al[e]) @ su2.ry(be[e]) @ su2.rz(ga[e])
            u2 = su2.rz(al[e + 1]) @ su2.ry(be[e + 1]) @ su2.rz(ga[e + 1])
            a3, b3, g3 = su2.euler_from_su2(u1 @ u2)
            if b3 < 1e-6 or b3 > math.pi - 1e-6:
                continue  # acos conditioning at the poles (DESIGN 3.5)
            d3 = dfun.D_matrix_conj(*(tf.constant(np.array([v_], dtype=np.float64)) for v_ in (a3, b3, g3)), j2).numpy()[0]
            # library returns conj(D); conj(D1) conj(D2) = conj(D1 D2)
            g = max(g, np.max(np.abs(lib[e] @ lib[e + 1] - d3)))
        ctx.dev("D group law", g, 1e-8)
        ctx.check("D group law", g < 1e-8, lambda: {"j2": j2, "dev": g, "alpha": al, "beta": be, "gamma": ga},
                  mechanism="D group law")
        ctx.case(("D", j2, i), nontrivial=j2 >= 1)
        ctx.covered("D_2j", j2)
        if i < 2:
            ctx.sample({"section": "D_sampled", "2j": j2, "alpha": al[3], "beta": be[3], "gamma": ga[3],
                        "lib_D00": lib[3][0][0], "max_dev": worst})

    # ------------------------------------------------------------ helicity gather
    n_l = ctx.pick(120, 1500)
    for i, rng in ctx.cases("D_lambda", n_l):
        ja2 = int(rng.integers(0, 7))
        jb2 = int(rng.integers(0, 5))
        jc2 = int(rng.integers(0, 5))
        if (ja2 + jb2 + jc2) % 2:
            jc2 += 1
        ja, jb, jc = ja2 / 2, jb2 / 2, jc2 / 2
        full = lambda j2_: [m / 2 if j2_ % 2 else m // 2 for m in range(-j2_, j2_ + 1, 2)]
        la, lb, lc = full(ja2), full(jb2), full(jc2)
        # random sub-lists (restricted helicities, as for massless / selected-spin particles)
        if rng.random() < 0.5 and len(lb) > 1:
            lb = [lb[0], lb[-1]]
        if rng.random() < 0.3 and len(la) > 1:
            la = list(rng.permutation(la))[: max(1, len(la) - 1)]
        nev = 4
        ang = {"alpha": tf.constant(rng.uniform(-3, 3, nev)), "beta": tf.constant(rng.uniform(0, 3.1, nev)),
               "gamma": tf.constant(rng.uniform(-3, 3, nev))}
        D = dfun.D_matrix_conj(ang["alpha"], ang["beta"], ang["gamma"], ja2).numpy()
        ref = np.zeros((nev, len(la), len(lb), len(lc)), dtype=complex)
        for ia, a in enumerate(la):
            for ib, b in enumerate(lb):
                for ic, c in enumerate(lc):
                    dl = b - c
                    if abs(dl) <= ja:
                        ref[:, ia, ib, ic] = D[:, int(round(a + ja)), int(round(dl + ja))]
        out = dfun.get_D_matrix_lambda(dict(ang), ja, la, lb, lc).numpy()
        dmax = np.max(np.abs(out - ref)) if out.shape == ref.shape else np.inf
        ok = dmax < 1e-12
        out2 = dfun.Dfun_delta(tf.constant(D), ja, tuple(la), tuple(lb), tuple(lc)).numpy()
        ok2 = out2.shape == ref.shape and np.max(np.abs(out2 - ref)) < 1e-12
        ctx.check("D_lambda gather", ok and ok2, lambda: {"ja": ja, "la": la, "lb": lb, "lc": lc, "dev": dmax},
                  mechanism="D_lambda gather")
        if jc2 == 0:
            out3 = dfun.get_D_matrix_lambda(dict(ang), ja, la, lb).numpy()
            ctx.check("D_lambda gather", out3.shape == ref[..., 0].shape and np.max(np.abs(out3 - ref[..., 0])) < 1e-12,
                      {"ja": ja, "la": la, "lb": lb, "lc": None}, mechanism="D_lambda gather lc=None")
        ctx.case(("Dl", ja2, tuple(la), tuple(lb), tuple(lc)), nontrivial=ja2 >= 1)

    # ------------------------------------------------------------ SU2M algebra and Euler extraction
    def lib_np(x):
        return np.array([[np.asarray(x["x"][0][0]), np.asarray(x["x"][0][1])],
                         [np.asarray(x["x"][1][0]), np.asarray(x["x"][1][1])]])  # (2,2,n)

    n_s = ctx.pick(300, 5000)
    for i, rng in ctx.cases("su2_euler", n_s):
        nev = 8
        a = rng.uniform(-math.pi, math.pi, (3, nev))
        b = rng.uniform(0, math.pi, (3, nev))
        c = rng.uniform(-math.pi, math.pi, (3, nev))
        b[0, 0] = 0.0
        b[0, 1] = math.pi
        b[0, 2] = 1e-9
        b[0, 3] = math.pi - 1e-9
        els = []
        refs = []
        for k in range(3):
            els.append(SU2M.Rotation_z(tf.constant(a[k])) * SU2M.Rotation_y(tf.constant(b[k])) * SU2M.Rotation_z(tf.constant(c[k])))
            refs.append(np.stack([su2.rz(a[k, e]) @ su2.ry(b[k, e]) @ su2.rz(c[k, e]) for e in range(nev)], axis=-1))
        prod = els[0] * els[1] * els[2].inv()
        ref = np.stack([refs[0][..., e] @ refs[1][..., e] @ np.linalg.inv(refs[2][..., e]) for e in range(nev)], axis=-1)
        pl = lib_np(prod)
        d1 = np.max(np.abs(pl - ref))
        ctx.check("su2 product/inverse", d1 < 1e-12, lambda: {"dev": d1}, mechanism="SU2M product/inverse")
        # the same algebra for elements that contain boosts (hermitian, not unitary): (X g) g^-1 == X and g^-1 == numpy inverse
        wv = rng.choice([1e-6, 0.05, 0.5, 2.0], size=nev) * rng.choice([-1.0, 1.0], size=nev)
        bz_l = SU2M.Boost_z(tf.constant(wv))
        g_l = els[0] * bz_l * els[1]
        g_n = np.stack([refs[0][..., e] @ su2.bz(wv[e]) @ refs[1][..., e] for e in range(nev)], axis=-1)
        gi = lib_np(g_l.inv())
        back = lib_np((els[2] * g_l) * g_l.inv())
        sc = float(np.exp(np.max(np.abs(wv)) / 2))
        d_inv = max(float(np.max(np.abs(gi[..., e] - np.linalg.inv(g_n[..., e])))) for e in range(nev))
        d_back = float(np.max(np.abs(back - refs[2])))
        ctx.check("su2 product/inverse", d_inv < 1e-11 * sc and d_back < 1e-11 * sc * sc, lambda: {"inverse_dev": d_inv, "(Xg)g^-1 - X": d_back, "rapidities": wv},
                  mechanism="SU2M product/inverse (elements with boosts)")
        worst = 0.0
        for el, name in ((els[0], "single"), (prod, "product")):
            ang = el.get_euler_angle()
            al, be, ga = (np.asarray(ang[k_]) for k_ in ("alpha", "beta", "gamma"))
            x = lib_np(el)
            for e in range(nev):
                rebuilt = su2.rz(ga[e]) @ su2.ry(be[e]) @ su2.rz(al[e])
                dd = np.max(np.abs(rebuilt - x[..., e]))
                sb = math.sin(be[e])
                tol = 1e-6 if sb < 1e-6 else 1e-9
                if dd >= tol:
                    ctx.violation("su2 euler roundtrip", {"kind": name, "element": x[..., e], "alpha": al[e], "beta": be[e],
                                                          "gamma": ga[e], "dev": dd}, mechanism="SU2M.get_euler_angle")
                else:
                    ctx.check("su2 euler roundtrip", True)
                if sb >= 1e-6:
                    worst = max(worst, dd)
        ctx.dev("su2 euler roundtrip", worst, 1e-9)
        ctx.case(("su2", i), nontrivial=True)

    # Wigner rotations: rotation-boost-rotation products composing to a pure rotation
    n_w = ctx.pick(200, 4000)
    sig = [np.eye(2), np.array([[0, 1], [1, 0]]), np.array([[0, -1j], [1j, 0]]), np.array([[1, 0], [0, -1]])]

    def p_of(h):
        # hermitian 2x2 -> four-vector (E, px, py, pz); note library boost diag(e^{-w/2}, e^{w/2}) acts on E - sigma.p
        return np.array([np.real(np.trace(h @ s)) / 2 for s in sig])

    for i, rng in ctx.cases("su2_wigner", n_w):
        w1 = float(rng.choice([1e-6, 0.3, 1.0, 2.5]))
        w2 = float(rng.choice([1e-6, 0.2, 1.2, 2.0]))
        a1, b1, c1 = rng.uniform(-math.pi, math.pi), rng.uniform(0.05, math.pi - 0.05), rng.uniform(-math.pi, math.pi)
        t = lambda v: tf.constant(np.array([float(v)], dtype=np.float64))
        R = SU2M.Rotation_z(t(a1)) * SU2M.Rotation_y(t(b1)) * SU2M.Rotation_z(t(c1))
        L = SU2M.Boost_z(t(w2)) * R * SU2M.Boost_z(t(w1))
        Ln = su2.bz(w2) @ su2.rz(a1) @ su2.ry(b1) @ su2.rz(c1) @ su2.bz(w1)
        # image of the rest frame: H = L L^dagger (unit mass); polar decomposition L = sqrt(H) U
        H = Ln @ Ln.conj().T
        ev, evec = np.linalg.eigh(H)
        sqrtH = evec @ np.diag(np.sqrt(ev)) @ evec.conj().T
        # standard boost written with library primitives: sqrtH = Rn Bz(w') Rn^-1, Rn = rz(phi) ry(theta)
        # eigenvalues of sqrtH are e^{-w'/2}, e^{+w'/2}; eigenvector of the larger one gives the axis
        wp = math.log(np.sqrt(ev[1]) / np.sqrt(ev[0]))
        v = evec[:, 1]  # belongs to e^{+w/2}: in library convention that is the "lower" component direction
        # lower spinor of rz(phi) ry(theta) is column 1: (-e^{-i phi/2} s, e^{i phi/2} c)
        theta = 2 * math.atan2(abs(v[0]), abs(v[1]))
        phi = (np.angle(v[1]) - np.angle(-v[0])) if abs(v[0]) > 1e-12 else 0.0
        Rn = SU2M.Rotation_z(t(phi)) * SU2M.Rotation_y(t(theta))
        Bstd = Rn * SU2M.Boost_z(t(wp)) * Rn.inv()
        chk = lib_np(Bstd)[..., 0]
        if np.max(np.abs(chk - sqrtH)) > 1e-9 * math.exp(wp / 2):
            ctx.count("wigner_skipped_axis_reconstruction")
            continue
        W = Bstd.inv() * L  # pure rotation by construction
        x = lib_np(W)[..., 0]
        scale = math.exp((w1 + w2 + wp) / 2)
        # the reference Wigner rotation from the polar decomposition; the library's product must be this (unitary) matrix
        Wn = np.linalg.inv(sqrtH) @ Ln
        dW = float(np.max(np.abs(x - Wn)))
        if not ctx.check("su2 product/inverse", dW < 1e-8 * scale, lambda: {"w1": w1, "w2": w2, "euler": [a1, b1, c1], "lib_B^-1_L": x, "reference": Wn, "dev": dW},
                         mechanism="SU2M product/inverse (standard boost inverse times Lorentz transformation)"):
            continue
        ang = W.get_euler_angle()
        al, be, ga = (float(np.asarray(ang[k_])[0]) for k_ in ("alpha", "beta", "gamma"))
        rebuilt = su2.rz(ga) @ su2.ry(be) @ su2.rz(al)
        dd = np.max(np.abs(rebuilt - x))
        tol = (1e-6 if math.sin(be) < 1e-6 else 1e-9) * scale
        ctx.dev("wigner rotation euler", dd / scale, 1e-9)
        ctx.check("su2 wigner-rotation euler roundtrip", dd < tol,
                  lambda: {"w1": w1, "w2": w2, "rot": (a1, b1, c1), "element": x, "euler": (al, be, ga), "dev": dd},
                  mechanism="SU2M.get_euler_angle (wigner rotation)")
        ctx.case(("wig", i), nontrivial=w1 > 1e-3 and w2 > 1e-3)
        if i < 1:
            ctx.sample({"section": "su2_wigner", "rapidities": [w1, w2], "rotation": [a1, b1, c1], "wigner_euler": [al, be, ga]})

LEVEL_TEXT = ("Runtime contracts on the real dfun/cg/SU2M functions compared with an independent rational-arithmetic and "
              "matrix-exponential reference: the finite tables the property names are enumerated completely, the continuous "
              "part (Euler angles, SU(2) elements, Wigner rotations from boost loops) is sampled; held on what was observed.")
TECHNIQUE = "differential runtime monitor vs exact reference (exhaustive finite tables + sampled group laws)"
