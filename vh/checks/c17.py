"""C17 - temporary overrides and derived computations leave the model unchanged."""
import contextlib
import io
import itertools
import sys

import numpy as np

from ..gen import cards

LEVEL = "fault_enumeration"
SHARDS = {"quick": 16, "thorough": 16}
TIMEOUT = {"quick": 900, "thorough": 3000}
THREADS = {"quick": 1, "thorough": 1}
RULE = (
    "per case: one generated card, started from the full or from a restricted chain selection, x every operation in {partial_weight, "
    "partial_weight_interference, fit_fractions old/new, one FitFractions object reused under another selection / inside a restricted-resonance block, cal_fitfractions, factor_iteration, build_amp_matrix, "
    "build_angle_amp_matrix, build_int_matrix, temp_params (dict and positional override), mask_params, temp_used_res, temp_total_gls_one, temp_config, "
    "vm.temp_params, vm.mask_params, ConfigLoader.mask_params, nested blocks up to depth 3} x fault points: none (normal exit), an "
    "exception raised by the block body, an exception injected at EVERY k-th call the clean run made of the inner functions "
    "{DecayGroup.get_amp, DecayGroup.sum_amp, AbsPDF.pdf, VarsManager.set, VarsManager.read}, generators abandoned after the j-th "
    "item, and (thorough) at every statement-start line of the operation's own code objects through sys.monitoring.  After the "
    "exception has propagated the state (parameters, active chains, masks, ls selections, global config, density of 24 probe "
    "events) must equal the state before.  non-trivial = a fault point inside the operation; distinct = (operation, start "
    "selection, fault kind, fault index)."
)
ASSUMPTIONS = [
    "state compared exactly (parameters, chains_idx as list, mask_vars, mask_factor flags, ls_list/ls_index, config['vm']) and the probe density to 1e-12",
    "flags that do not change the density (DecayGroup.not_full) are recorded but not required to be restored",
    "call-level fault enumeration is exhaustive per clean trace (every k); line-level enumeration covers the operation's own code objects (not callees)",
]
REQUIRE = {
    "monitors": {"state restored after normal exit": 60, "state restored after exception in block body": 30,
                 "state restored after injected fault (call level)": 100, "state restored after abandoned generator": 6},
    "min_nontrivial": {"quick": 150, "thorough": 2000},
    "cover": {"evaluation": ["eager", "traced"], "bounds_installed": [True, False], "operation": ["ConfigLoader.mask_params", "build_amp_matrix", "build_angle_amp_matrix", "build_int_matrix", "cal_fitfractions",
                            "factor_iteration", "fit_fractions(new)", "fit_fractions(old)", "mask_params",
                            "nested(mask_params>temp_total_gls_one>partial_weight>vm.temp_params)", "nested(temp_params>temp_used_res>mask_params)",
                            "nested(mask_params>mask_params)", "nested(mask_params>factor_iteration)", "nested(factor_iteration>mask_params)",
                            "nested(mask_params>temp_params)", "nested(mask_params>temp_params(positional))", "temp_used_res(all resonances)",
                            "partial_weight", "partial_weight_interference", "temp_config", "temp_params", "temp_params(positional)",
                            "temp_total_gls_one", "temp_used_res", "vm.mask_params", "vm.temp_params"]},
}
LEVEL_TEXT = ("Fault enumeration on the real code: for every operation the inner-function calls of a clean run are counted and an exception is "
              "injected at each of them in turn (and, thorough, at every statement-start line of the operation's own code through "
              "sys.monitoring), block bodies raise, generators are abandoned; after every fault the observable model state and the density "
              "of probe events are compared with the state before.")
TECHNIQUE = "failpoint injection (call-level exhaustive per trace, line-level via sys.monitoring) + state/density comparison at quiescent points"


class Injected(Exception):
    pass


class UserError(Exception):
    pass


class UserInterrupt(BaseException):
    """stands for KeyboardInterrupt / SystemExit / GeneratorExit / CancelledError: an exception that is not an Exception"""


def quiet():
    return contextlib.redirect_stdout(io.StringIO())


def run(ctx):
    import tensorflow as tf

    from tf_pwa import config as tconfig
    from tf_pwa.amp.amp import AbsPDF
    from tf_pwa.amp.core import DecayGroup
    from tf_pwa.applications import fit_fractions
    from tf_pwa.fitfractions import FitFractions
    from tf_pwa.experimental import build_amp as bamp
    from tf_pwa.experimental import opt_int
    from tf_pwa.variable import VarsManager

    # ------------------------------------------------------------ call-level failpoints on inner functions
    fp = {"armed": None, "count": {}, "active": False}
    targets = [(DecayGroup, "get_amp"), (DecayGroup, "sum_amp"), (AbsPDF, "pdf"), (VarsManager, "set"), (VarsManager, "read")]
    # AbsPDF.pdf is overridden in subclasses: hook the concrete classes too
    from tf_pwa.amp import amp as ampmod

    for nm in dir(ampmod):
        cls = getattr(ampmod, nm)
        if isinstance(cls, type) and issubclass(cls, AbsPDF) and "pdf" in cls.__dict__:
            targets.append((cls, "pdf"))

    def hook(cls, name):
        orig = cls.__dict__[name]
        key = "%s.%s" % (cls.__name__, name)

        def wrapper(*a, **k):
            if fp["active"]:
                fp["count"][key] = fp["count"].get(key, 0) + 1
                if fp["armed"] == (key, fp["count"][key]):
                    raise Injected("%s call %d" % (key, fp["count"][key]))
            return orig(*a, **k)

        wrapper.__name__ = name
        setattr(cls, name, wrapper)

    for cls, name in targets:
        if name in cls.__dict__:
            hook(cls, name)

    def snapshot(cfg, amp, probe):
        dg = amp.decay_group
        st = {
            "params": {k: float(v) for k, v in amp.get_params().items()},
            "chains_idx": list(dg.chains_idx),
            "mask_vars": {k: float(v) for k, v in amp.vm.mask_vars.items()},
            "bounds": sorted(amp.vm.bnd_dic),
            "mask_factor": [(str(c), bool(getattr(c, "mask_factor", False))) for c in dg] + [(str(d), bool(getattr(d, "mask_factor", False))) for c in dg for d in c],
            "ls": [(str(d), None if d.ls_list is None else tuple(map(tuple, d.ls_list)), None if d.ls_index is None else tuple(d.ls_index)) for c in dg for d in c],
            "config_vm": id(tconfig.get_config("vm")) if tconfig.get_config("vm", None) is not None else None,
        }
        fp_active = fp["active"]
        fp["active"] = False
        try:
            st["density"] = np.asarray(amp(probe)).tolist()
        finally:
            fp["active"] = fp_active
        return st

    def diff(a, b):
        out = []
        for k in a:
            if k == "density":
                x, y = np.asarray(a[k]), np.asarray(b[k])
                if x.shape != y.shape or np.max(np.abs(x - y) / (np.abs(x) + 1e-300)) > 1e-12:
                    out.append("density")
            elif a[k] != b[k]:
                out.append(k)
        return out

    def restore(cfg, amp, st, full_state):
        """bring the model back to the reference state so that one leak does not contaminate the next fault point"""
        dg = amp.decay_group
        amp.vm.mask_vars = {}
        tconfig.set_config("vm", full_state)
        dg.set_used_chains(list(st["chains_idx"]))
        for c in dg:
            c.mask_factor = False
            for d in c:
                d.mask_factor = False
                if d.total_ls is not None:
                    d.set_ls(list(d.total_ls))
        amp.set_params(st["params"])

    n_cards = ctx.pick(16, 400)
    for i, rng in ctx.cases("cards", n_cards, budget_s=ctx.pick(450, 2600)):
        tag = "_c17s%di%d" % (ctx.seed, i)
        try:
            card = cards.CardGen(rng, tag, nbody=3, n_chains=(2, 3), res_per_slot=(1, 2), final_j2=(0, 0, 1, 2), models=("default", "BW"), decay_opts_prob=0.1).make()
            tied_card = i % 2 == 0
            if tied_card:
                # two couplings known under two names each (var_equal): a complete parameter set then lists both names of a shared value
                with quiet():
                    free_p = [k_ for k_ in cards.load(card).get_amplitude().vm.trainable_vars if k_.endswith("r")]
                if len(free_p) >= 2:
                    card["config"].setdefault("constrains", {})["var_equal"] = [[free_p[0], free_p[-1]]]
                else:
                    tied_card = False
            traced = i % 4 == 3  # every fourth card evaluates through a traced tf.function (use_tf_function: True)
            with quiet():
                cfg = cards.load(card, extra_data={"use_tf_function": True} if traced else None)
                amp = cfg.get_amplitude()
                amp.set_params(cards.random_params(amp, (ctx.seed, i)))
        except Exception as e:
            ctx.count("card_failed")
            continue
        ctx.covered("evaluation", "traced" if traced else "eager")
        ctx.covered("tied_parameters", tied_card)
        dg = amp.decay_group
        nch = len(dg.chains)
        ps = cards.events(card, 24, rng, classes=False)
        with quiet():
            probe = cfg.data.cal_angle([np.ascontiguousarray(p) for p in ps])
            mc = cfg.data.cal_angle([np.ascontiguousarray(p) for p in cards.events(card, 40, rng, classes=False)])
        mc["weight"] = rng.uniform(0.5, 1.5, 40)
        res_names = [str(r) for r in dg.resonances]
        pnames = sorted(amp.get_params())
        some = {k: float(rng.uniform(-1, 1)) for k in rng.choice(pnames, size=min(3, len(pnames)), replace=False)}
        restricted = sorted(rng.choice(nch, size=max(1, nch - 1), replace=False).tolist())
        # every second card: bounds installed on one or two of the overridden parameters (as during a fit with var_range / m_min..m_max)
        bounded = {}
        if i % 2 == 1:
            for k in list(some)[:2]:
                v_ = float(amp.get_params()[k])
                bounded[k] = [(v_ - 1.5, v_ + 2.0), (v_ - 1.5, None), (None, v_ + 2.0)][int(rng.integers(3))]
            # the overriding values must lie inside the bounds
            for k, (lo_, hi_) in bounded.items():
                v_ = float(amp.get_params()[k])
                some[k] = v_ + float(rng.uniform(-0.7, 0.9))
            amp.vm.set_bound(bounded)
        ctx.covered("bounds_installed", bool(bounded))
        if traced:
            try:
                with quiet():
                    amp(probe)
                    amp(probe)  # the second call with the same object goes through the traced function
            except Exception as e:
                ctx.count("traced_evaluation_declined")
                ctx.note("traced evaluation declined: %r" % (e,))
                continue
        ctx.context = {"card": cards.short(card), "index": i, "traced": traced, "bounded": sorted(bounded)}
        vm0 = tconfig.get_config("vm", None)
        dg.set_used_chains(list(range(nch)))
        with quiet():
            ff_full = FitFractions(amp, res_names)

        # ---------------- operations: op(body) ; body is called inside the innermost block (may raise)
        def op_partial_weight(body):
            amp.partial_weight(mc)
            body()

        def op_partial_interf(body):
            amp.partial_weight_interference(mc)
            body()

        def op_ff_old(body):
            with quiet():
                fit_fractions(amp, mc, None, {}, 17, res_names, method="old")
            body()

        def op_ff_new(body):
            with quiet():
                r = fit_fractions(amp, mc, None, {}, 17, res_names, method="new")
                r.get_frac(error_matrix=None, sum_diag=False)
            body()

        def op_ff_obj_reused(body):
            # one FitFractions object, built once per card under the FULL selection, asked to integrate again under whatever selection is active now
            with quiet():
                ff_full.integral(mc, batch=17)
                ff_full.get_frac(error_matrix=None, sum_diag=False)
            body()

        def op_ff_obj_in_block(body):
            # the object is built outside, the integration runs inside a restricted-resonance block: when integral() returns, the block's own
            # selection must still be active (checked in place: leaving the block would hide a leak)
            with quiet():
                ff = FitFractions(amp, res_names)
            with amp.temp_used_res(res_names[:1]):
                inside = list(dg.chains_idx)
                f_in = np.asarray(amp(probe))
                with quiet():
                    ff.integral(mc)
                after = list(dg.chains_idx)
                f_after = np.asarray(amp(probe))
                same_f = f_in.shape == f_after.shape and np.max(np.abs(f_in - f_after) / (np.abs(f_in) + 1e-300)) <= 1e-12
                ctx.check("state restored after normal exit", inside == after and bool(same_f),
                          lambda: {"card": cards.short(card), "operation": "FitFractions(amp, res) built outside, integral() inside temp_used_res", "chains_inside_block_before": inside,
                                   "chains_after_integral": after, "density_unchanged": bool(same_f)},
                          mechanism="not restored after normal exit: FitFractions.integral inside a temp_used_res block (object built outside)")
                body()

        KF_TRACED_MASK = "not restored after normal exit: mask_params whose block holds the first traced evaluation of a data object (use_tf_function)"

        def op_cal_ff(body):
            with quiet():
                cfg.cal_fitfractions(mcdata=mc, batch=23)
            body()

        def op_factor_iter(body):
            for _ in amp.factor_iteration(deep=2):
                amp(probe)
            body()

        def op_amp_matrix(body):
            bamp.build_amp_matrix(dg, probe)
            body()

        def op_angle_amp_matrix(body):
            bamp.build_angle_amp_matrix(dg, probe)
            body()

        def op_int_matrix(body):
            opt_int.build_int_matrix(dg, mc)
            body()

        def cm(factory):
            def op(body):
                with factory():
                    amp(probe)
                    body()
            return op

        def nested(body):
            with amp.temp_params(some):
                with amp.temp_used_res(res_names[:1]):
                    with amp.mask_params({pnames[0]: 0.5}):
                        amp(probe)
                        body()

        def nested2(body):
            with cfg.mask_params({pnames[-1]: 0.25}):
                with amp.temp_total_gls_one():
                    amp.partial_weight(mc)
                    with amp.vm.temp_params(some):
                        amp(probe)
                        body()

        def nested3(body):
            with amp.mask_params({pnames[0]: 0.5}):
                with amp.vm.mask_params({pnames[-1]: 0.25}):
                    amp(probe)
                with cfg.mask_params({pnames[-1]: 0.75}):
                    amp(probe)
                    body()

        def nested6(body):
            with amp.mask_params({pnames[0]: 0.5}):
                with amp.temp_params(some):
                    amp(probe)
                    body()

        def nested7(body):
            with amp.mask_params({pnames[0]: 0.5, pnames[-1]: 0.25}):
                with amp.temp_params([float(v_) + 0.37 for v_ in amp.vm.get_all_val()]):
                    amp(probe)
                    body()

        def nested8(body):
            # all resonances selected inside a block that started from whatever selection was active
            with amp.temp_used_res(res_names):
                amp(probe)
                body()

        def nested4(body):
            with amp.mask_params({pnames[0]: 0.5}):
                for _ in amp.factor_iteration(deep=2):
                    amp(probe)
                body()

        def nested5(body):
            for _ in amp.factor_iteration(deep=1):
                with amp.mask_params({pnames[0]: 0.5}):
                    amp(probe)
            body()

        ops = {
            "nested(mask_params>temp_params)": nested6, "nested(mask_params>temp_params(positional))": nested7, "temp_used_res(all resonances)": nested8,
            "nested(mask_params>mask_params)": nested3, "nested(mask_params>factor_iteration)": nested4, "nested(factor_iteration>mask_params)": nested5,
            "partial_weight": op_partial_weight, "partial_weight_interference": op_partial_interf, "fit_fractions(old)": op_ff_old,
            "fit_fractions(new)": op_ff_new, "FitFractions object reused": op_ff_obj_reused, "FitFractions object inside temp_used_res": op_ff_obj_in_block, "cal_fitfractions": op_cal_ff, "factor_iteration": op_factor_iter, "build_amp_matrix": op_amp_matrix,
            "build_angle_amp_matrix": op_angle_amp_matrix, "build_int_matrix": op_int_matrix,
            "temp_params": cm(lambda: amp.temp_params(some)),
            # a complete parameter set (as read from get_params() or a result file: every name, both names of a tie) as the override
            "temp_params(all names)": cm(lambda: amp.temp_params({k_: float(v_) + 0.173 for k_, v_ in amp.get_params().items()})),
            "vm.temp_params(all names)": cm(lambda: amp.vm.temp_params({k_: float(v_) + 0.173 for k_, v_ in amp.get_params().items()})),
            # positional override (what a minimiser's x or vm.get_all_val() is): values of all trainable variables in order
            "temp_params(positional)": cm(lambda: amp.temp_params([float(v_) + 0.37 for v_ in amp.vm.get_all_val()])),
            "mask_params": cm(lambda: amp.mask_params({pnames[0]: 0.5})),
            "temp_used_res": cm(lambda: amp.temp_used_res(res_names[:1])), "temp_total_gls_one": cm(lambda: amp.temp_total_gls_one()),
            "temp_config": cm(lambda: tconfig.temp_config("vm", amp.vm)), "vm.temp_params": cm(lambda: amp.vm.temp_params(some)),
            "vm.mask_params": cm(lambda: amp.vm.mask_params({pnames[0]: 0.5})), "ConfigLoader.mask_params": cm(lambda: cfg.mask_params({pnames[0]: 0.5})),
            "nested(temp_params>temp_used_res>mask_params)": nested, "nested(mask_params>temp_total_gls_one>partial_weight>vm.temp_params)": nested2,
        }
        op_names = list(ops)
        # a rotating subset per card in the quick tier
        if ctx.tier == "quick":
            op_names = [op_names[(i + j * 5) % len(op_names)] for j in range(5)]  # stride 5: the expensive fit-fraction operations are spread over the cards
            # the operations whose outcome depends on the card class are always run on that class
            extra_ops = (["temp_params(all names)", "vm.temp_params(all names)"] if tied_card else []) + \
                (["FitFractions object reused", "FitFractions object inside temp_used_res"] if i % 8 == 0 else []) + \
                (["temp_used_res(all resonances)", "factor_iteration", "temp_used_res"] if traced else []) + \
                (["vm.temp_params", "temp_params", "nested(mask_params>temp_params)"] if bounded else [])
            op_names += [o for o in extra_ops if o not in op_names]
        for start in ("full", "restricted"):
            if start == "restricted" and nch < 2:
                continue
            dg.set_used_chains(list(range(nch)) if start == "full" else list(restricted))
            ref = snapshot(cfg, amp, probe)
            for name in op_names:
                op = ops[name]
                _t_op = __import__("time").time()
                desc = lambda: {"operation": name, "start_selection": start, "chains_idx_before": ref["chains_idx"], "card": cards.short(card), "config": card["config"]}

                def judge(monitor, fault, mech):
                    after = snapshot(cfg, amp, probe)
                    d = diff(ref, after)
                    ctx.check(monitor, not d, lambda: dict(desc(), fault=fault, changed=d, chains_idx_after=after["chains_idx"], mask_vars_after=after["mask_vars"]),
                              mechanism=mech)
                    if d:
                        restore(cfg, amp, ref, vm0)
                    ctx.case((name, start, fault if isinstance(fault, str) else repr(fault)), nontrivial=fault != "none")

                # (0) clean run, counting inner calls
                fp["count"] = {}
                fp["armed"] = None
                fp["active"] = True
                at_body = {}
                try:
                    op(lambda: at_body.update(fp["count"]))
                except Exception as e:
                    fp["active"] = False
                    ctx.violation("state restored after normal exit", ctx.exc_witness(e, **desc()), mechanism="operation raises on the normal path: " + name)
                    restore(cfg, amp, ref, vm0)
                    continue
                fp["active"] = False
                clean_counts = dict(fp["count"])
                judge("state restored after normal exit", "none", "not restored after normal exit: %s (start=%s)" % (name, start))
                # (i) exception raised by user code inside the block / after the computation
                def boom():
                    raise UserError("raised by the block body")
                try:
                    op(boom)
                except UserError:
                    pass
                judge("state restored after exception in block body", "body raises", "not restored after exception in the block body: " + name)
                # (i') the block is left by an exception that is not an Exception subclass (Ctrl-C during a computation, a closed generator)
                def boom2():
                    raise UserInterrupt("interrupt inside the block body")
                try:
                    op(boom2)
                except UserInterrupt:
                    pass
                judge("state restored after exception in block body", "body interrupted (BaseException)", "not restored after a BaseException in the block body: " + name)
                # (ii) injected fault at every k-th call of every inner function
                for key, total in sorted(clean_counts.items()):
                    ks = list(range(1, total + 1))
                    if ctx.tier == "quick" and len(ks) > 4:
                        ks = sorted(set([1, total] + rng.choice(ks, size=2, replace=False).tolist()))
                    for k in ks:
                        if k > at_body.get(key, 0) and name not in ("partial_weight", "partial_weight_interference", "fit_fractions(old)", "fit_fractions(new)", "cal_fitfractions", "FitFractions object reused",
                                                                     "factor_iteration", "build_amp_matrix", "build_angle_amp_matrix", "build_int_matrix"):
                            # the call happens after the block body: it belongs to the restoring code itself (a failing restore cannot restore)
                            ctx.count("fault_in_restoring_code_not_judged")
                            continue
                        fp["count"] = {}
                        fp["armed"] = (key, k)
                        fp["active"] = True
                        try:
                            op(lambda: None)
                            fired = False
                        except Injected:
                            fired = True
                        except Exception as e:
                            fired = True
                            ctx.count("other_exception_during_injection:" + type(e).__name__)
                        fp["active"] = False
                        fp["armed"] = None
                        if not fired:
                            ctx.count("fault_point_not_reached")
                            continue
                        judge("state restored after injected fault (call level)", "%s#%d" % (key, k), "not restored after fault inside: " + name)
                        ctx.covered("fault_site", key)
                ctx.covered("operation", name)
                ctx.count("seconds:op:" + name, int(__import__("time").time() - _t_op))
                ctx.count("seconds:card:%d%s" % (i, "(traced)" if traced else ""), int(__import__("time").time() - _t_op))
            dg.set_used_chains(list(range(nch)))
        # (iii') traced evaluation: on a FRESH model of the same card (no compiled function yet) a data object is evaluated once eagerly and
        # its first traced evaluation happens inside a mask block; after the block its density must be the unmasked one again
        if traced:
            try:
                with quiet():
                    cfg_f = cards.load(card, extra_data={"use_tf_function": True})
                    amp_f = cfg_f.get_amplitude()
                    amp_f.set_params(amp.get_params())
                    d2 = cfg_f.data.cal_angle([np.ascontiguousarray(p) for p in ps])
                    ref2 = np.asarray(amp_f.pdf(d2))
                    amp_f(d2)
                    with amp_f.mask_params({pnames[0]: 0.5}):
                        amp_f(d2)
                    after2 = np.asarray(amp_f(d2))
                dv2 = float(np.max(np.abs(after2 - ref2) / (np.abs(ref2) + 1e-300))) if after2.shape == ref2.shape else np.inf
                ctx.check("state restored after normal exit", dv2 <= 1e-12, lambda: {"card": cards.short(card), "masked_parameter": pnames[0],
                                                                                     "max_relative_change_of_the_density_after_the_block": dv2}, mechanism=KF_TRACED_MASK)
                ctx.covered("operation", "mask_params(first traced evaluation inside the block)")
            except Exception as e:
                ctx.count("traced_first_evaluation_declined")
                ctx.note("traced first-evaluation scenario declined: %r" % (e,))
        # (iv) abandoned generators
        dg.set_used_chains(list(range(nch)))
        ref = snapshot(cfg, amp, probe)
        for j in (1, 2):
            gen = amp.factor_iteration(deep=2)
            try:
                for _k in range(j):
                    next(gen)
            except StopIteration:
                pass
            gen.close()
            after = snapshot(cfg, amp, probe)
            d = diff(ref, after)
            ctx.check("state restored after abandoned generator", not d, lambda: {"generator": "factor_iteration", "abandoned_after": j, "changed": d, "card": cards.short(card),
                                                                               "chains_idx_after": after["chains_idx"], "mask_vars_after": after["mask_vars"]},
                      mechanism="not restored after abandoned generator: factor_iteration")
            if d:
                restore(cfg, amp, ref, vm0)
            ctx.case(("gen", "factor_iteration", j, i), nontrivial=True)
        chain0 = dg.chains[0]
        for j in (1,):
            gen = opt_int.split_gls(chain0)
            try:
                next(gen)
            except StopIteration:
                pass
            gen.close()
            after = snapshot(cfg, amp, probe)
            d = diff(ref, after)
            ctx.check("state restored after abandoned generator", not d, lambda: {"generator": "split_gls", "abandoned_after": j, "changed": d, "card": cards.short(card)},
                      mechanism="not restored after abandoned generator: split_gls")
            if d:
                restore(cfg, amp, ref, vm0)
            ctx.case(("gen", "split_gls", j, i), nontrivial=True)
        # (iii) line-level failpoints (thorough): every statement-start line of the operation's own code object
        if ctx.tier == "thorough" and hasattr(sys, "monitoring"):
            mon = sys.monitoring
            TOOL = 3
            line_targets = {
                "partial_weight": [DecayGroup.partial_weight], "partial_weight_interference": [DecayGroup.partial_weight_interference],
                "build_int_matrix": [opt_int.build_int_matrix], "build_amp_matrix": [bamp.build_amp_matrix],
            }
            for name, funcs in line_targets.items():
                codes = [getattr(f, "__wrapped__", f).__code__ for f in funcs]
                seen_lines = []
                state = {"hit": 0, "arm": None}

                def on_line(code, line):
                    state["hit"] += 1
                    if state["arm"] is None:
                        seen_lines.append(line)
                    elif state["hit"] == state["arm"]:
                        raise Injected("line %d" % line)

                try:
                    mon.use_tool_id(TOOL, "vh-failpoints")
                except ValueError:
                    pass
                mon.register_callback(TOOL, mon.events.LINE, on_line)
                for c in codes:
                    mon.set_local_events(TOOL, c, mon.events.LINE)
                try:
                    state["hit"], state["arm"] = 0, None
                    ops[name](lambda: None)
                    n_lines = state["hit"]
                    for k in range(1, n_lines + 1):
                        state["hit"], state["arm"] = 0, k
                        try:
                            ops[name](lambda: None)
                        except Injected:
                            pass
                        except Exception:
                            ctx.count("other_exception_during_line_injection")
                        after = snapshot(cfg, amp, probe)
                        d = diff(ref, after)
                        ctx.check("state restored after injected fault (line level)", not d,
                                  lambda: {"operation": name, "line_event": k, "changed": d, "card": cards.short(card)}, mechanism="not restored after fault inside: " + name)
                        if d:
                            restore(cfg, amp, ref, vm0)
                        ctx.case((name, "line", k), nontrivial=True)
                finally:
                    for c in codes:
                        mon.set_local_events(TOOL, c, 0)
                    mon.register_callback(TOOL, mon.events.LINE, None)
                    try:
                        mon.free_tool_id(TOOL)
                    except Exception:
                        pass
        if i < ctx.nshards:
            ctx.sample({"card": cards.short(card), "operations": op_names, "fault_kinds": ["none", "body raises", "k-th call of DecayGroup.get_amp/sum_amp, pdf, VarsManager.set/read",
                                                                                     "abandoned generator", "line-level (thorough)"],
                        "clean_call_counts_last_op": clean_counts}, limit=2)
