"""C18 - structured event-data operations are lossless."""
import contextlib
import io
import os

import numpy as np

from ..gen import cards

LEVEL = "exploration"
SHARDS = {"quick": 8, "thorough": 16}
TIMEOUT = {"quick": 500, "thorough": 2400}
THREADS = {"quick": 1, "thorough": 1}
RULE = (
    "per case: a random nested dict/list/tuple structure of arrays (depth <= 4, trailing dimensions, float/int/complex/bool "
    "leaves, empty dict/list/tuple at every depth in half of the cases) with n in {1..2000} events x batch sizes "
    "{1, n-1, n, n+1, 7, 65000}: split+merge, number of batches, batch_call, batch_sum, data_mask, data_index, data_map, "
    "data_shape; file round trips (CalAngleData.savetxt / SimpleData.savetxt txt+npy, load_dat_file with every dat_order "
    "permutation and multi-file input, npz, save_data/save_dataz/load_data, cached_data); lazy vs eager preprocessor output.  "
    "non-trivial = structure with >= 3 leaves or an empty container, n not divisible by the batch; distinct = structure+n+batch."
)
RULE += '  Also: lazily evaluated samples through the loader (five lazy variants incl. memory / disk cache, several groups, merged data+bg, repeated and interleaved batch sizes, bare LazyFile); momenta written with the charge column beside them.'
ASSUMPTIONS = [
    "lossless = same keys, same container types (dict key order is not content), same dtype and values (exact)",
    "text files: numpy '%.18e' round trip, compared exactly after the same text round trip of the reference (1e-15 relative)",
    "ROOT files are not named by the property and not driven",
]
REQUIRE = {
    "monitors": {"merge(split(d,b))==d": 100, "number of batches == ceil(n/b)": 100, "batch_call(f,d,b)==f(d)": 50, "batch_sum": 50,
                 "data_mask selects leaf[mask]": 50, "data_index returns addressed leaf": 50, "momenta file round trip": 10,
                 "structured data file round trip": 10, "lazy == eager": 4, "lazy batches == eager": 40},
    "cover": {"empty_container": ["dict", "list", "tuple"],
              "lazy_variant": ["lazy_call", "lazy_call+lazy_file", "lazy_call+memory cache", "lazy_call+disk cache", "lazy_call+lazy_file+disk cache"]},
    "min_nontrivial": 100,
}
LEVEL_TEXT = ("Contract-style runtime monitors on the real tf_pwa.data helpers and the loader/saver paths over generated nested structures "
              "(incl. empty containers and > 1000 batches), every dat_order permutation and multi-file inputs, and LazyCall vs eager output.")
TECHNIQUE = "round-trip / differential runtime monitors on the real data helpers over generated nested structures and files"


def gen_struct(rng, n, depth=0, allow_empty=True, stats=None):
    """random nested structure; returns structure. leaves have leading dimension n"""
    kind = rng.choice(["dict", "list", "tuple", "leaf", "leaf"]) if depth > 0 else rng.choice(["dict", "dict", "list", "tuple"])
    if depth >= 3:
        kind = "leaf"
    if kind == "leaf":
        dt = rng.choice(["f8", "f8", "i8", "c16", "bool", "f4"])
        shape = (n,) + tuple(int(x) for x in rng.integers(1, 4, size=int(rng.integers(0, 3))))
        if dt == "c16":
            return rng.normal(size=shape) + 1j * rng.normal(size=shape)
        if dt == "bool":
            return rng.random(shape) < 0.5
        if dt == "i8":
            return rng.integers(-1000, 1000, size=shape)
        return rng.normal(size=shape).astype(dt)
    k = int(rng.integers(1, 4))
    if allow_empty and rng.random() < 0.25 and depth > 0:
        if stats is not None:
            stats.add(str(kind))
        return {"dict": {}, "list": [], "tuple": ()}[str(kind)]
    kids = [gen_struct(rng, n, depth + 1, allow_empty, stats) for _ in range(k)]
    if kind == "dict":
        keys = [str(rng.choice(["a", "b", "c", "p", "m", "ang", "w"])) + str(j) for j in range(k)]
        return dict(zip(keys, kids))
    if kind == "list":
        return list(kids)
    return tuple(kids)


def leaves(d, path=()):
    if isinstance(d, dict):
        for k, v in d.items():
            yield from leaves(v, path + (k,))
    elif isinstance(d, (list, tuple)):
        for j, v in enumerate(d):
            yield from leaves(v, path + (j,))
    else:
        yield path, d


def same(a, b):
    """exact structural equality: container types, keys, dtypes, values"""
    if isinstance(a, dict) or isinstance(b, dict):
        return isinstance(a, dict) and isinstance(b, dict) and set(a) == set(b) and all(same(a[k], b[k]) for k in a)
    if isinstance(a, (list, tuple)) or isinstance(b, (list, tuple)):
        return type(a) is type(b) and len(a) == len(b) and all(same(x, y) for x, y in zip(a, b))
    a, b = np.asarray(a), np.asarray(b)
    return a.dtype == b.dtype and a.shape == b.shape and np.array_equal(a, b)


def has_leaf(d):
    return any(True for _ in leaves(d))


def run(ctx):
    import tensorflow as tf

    from tf_pwa import data as D

    empties = set()
    n_s = ctx.pick(400, 12000)
    for i, rng in ctx.cases("structures", n_s):
        n = int(rng.choice([1, 2, 3, 7, 37, 100, 101, 1500, 2000]))
        if n >= 1500 and i % 5:
            n = int(rng.choice([7, 37, 101]))
        seen = set()
        d = gen_struct(rng, n, allow_empty=(i % 2 == 0), stats=seen)
        if not has_leaf(d):
            continue
        for s_ in seen:
            ctx.covered("empty_container", s_)
        nl = sum(1 for _ in leaves(d))
        batches = sorted({1, max(1, n - 1), n, n + 1, 7, 65000}) if n <= 101 else sorted({1, n - 1, 7, 65000})
        desc = lambda: {"n": n, "structure": D.data_struct(d), "batches": batches}
        mech_sfx = " (structure with empty %s)" % "/".join(sorted(seen)) if seen else ""
        # the same along another axis (data_split / data_merge take an axis argument): a nested structure of (k, n) arrays
        if i % 4 == 0 and n >= 2:
            k_rows = int(rng.integers(1, 4))
            d2 = {"a": rng.normal(size=(k_rows, n)), "g": {"b": rng.normal(size=(k_rows, n)), "t": (rng.integers(0, 9, (k_rows, n)),)}, "l": [rng.normal(size=(k_rows, n))]}
            b2 = int(rng.choice([1, max(1, n - 1), 7]))
            try:
                parts2 = list(D.data_split(d2, b2, axis=-1))
                merged2 = D.data_to_numpy(D.data_merge(*parts2, axis=-1))
                ctx.check("merge(split(d,b))==d", same(merged2, d2) and len(parts2) == -(-n // b2), lambda: {"n": n, "rows": k_rows, "batch": b2, "axis": -1, "merged_struct": D.data_struct(merged2)},
                          mechanism="split/merge along axis=-1 (nested)")
            except Exception as e:
                ctx.violation("merge(split(d,b))==d", ctx.exc_witness(e, n=n, rows=k_rows, batch=b2, axis=-1), mechanism="split/merge along axis=-1 raises (nested)")
        for b in batches:
            try:
                parts = list(D.data_split(d, b))
                want_nb = -(-n // b)
                ctx.check("number of batches == ceil(n/b)", len(parts) == want_nb, lambda: dict(desc(), batch=b, got=len(parts), want=want_nb),
                          mechanism="data_split batch count" + mech_sfx)
                if len(parts) == 0:
                    continue
                ok_len = True
                for k_, p in enumerate(parts):
                    want_len = b if k_ < want_nb - 1 else n - b * (want_nb - 1)
                    for _, leaf in leaves(p):
                        if np.asarray(leaf).shape[0] != want_len:
                            ok_len = False
                merged = D.data_to_numpy(D.data_merge(*parts))
                ok = same(merged, d) if len(parts) == want_nb else False
                ctx.check("merge(split(d,b))==d", ok and ok_len, lambda: dict(desc(), batch=b, merged_struct=D.data_struct(merged)),
                          mechanism="split/merge" + mech_sfx)
            except Exception as e:
                ctx.violation("merge(split(d,b))==d", ctx.exc_witness(e, batch=b, **desc()), mechanism="split/merge raises" + mech_sfx)
            ctx.case(("s", repr(D.data_struct(d)), n, b), nontrivial=(nl >= 3 or bool(seen)) and (n % b != 0 or b > n or b == 1))
        # batch_call with an element-wise function; batch_sum
        first = next(leaves(d))[1]
        fl = [leaf for _, leaf in leaves(d) if np.asarray(leaf).dtype.kind == "f"]
        if fl:
            def f(x, _paths=[p for p, leaf in leaves(d) if np.asarray(leaf).dtype.kind == "f"]):
                out = 0.0
                for p in _paths:
                    v = x
                    for k_ in p:
                        v = v[k_]
                    v = tf.cast(tf.reshape(v, (tf.shape(v)[0], -1)), tf.float64)
                    out = out + tf.reduce_sum(v * v, axis=-1) + 1.0
                return out
            whole = np.asarray(f(D.data_to_tensor(d)))
            for b in batches[:4]:
                try:
                    got = np.asarray(D.batch_call(f, d, b))
                    ctx.check("batch_call(f,d,b)==f(d)", got.shape == whole.shape and np.array_equal(got, whole), lambda: dict(desc(), batch=b),
                              mechanism="batch_call" + mech_sfx)
                    tot = float(D.batch_sum(lambda x: tf.reduce_sum(f(x)), d, b))
                    ctx.check("batch_sum", abs(tot - whole.sum()) <= 1e-9 * abs(whole.sum()) + 1e-12, lambda: dict(desc(), batch=b, got=tot, want=float(whole.sum())),
                              mechanism="batch_sum" + mech_sfx)
                except Exception as e:
                    ctx.violation("batch_call(f,d,b)==f(d)", ctx.exc_witness(e, batch=b, **desc()), mechanism="batch_call raises" + mech_sfx)
        # mask
        mask = rng.random(n) < rng.choice([0.0, 0.3, 0.5, 1.0])
        try:
            got = D.data_to_numpy(D.data_mask(d, mask))
            want = D.data_map(d, lambda x: np.asarray(x)[mask])
            ctx.check("data_mask selects leaf[mask]", same(got, want), lambda: dict(desc(), n_selected=int(mask.sum())), mechanism="data_mask")
        except Exception as e:
            ctx.violation("data_mask selects leaf[mask]", ctx.exc_witness(e, **desc()), mechanism="data_mask raises")
        # index
        for path, leaf in list(leaves(d))[:4]:
            try:
                got = D.data_index(d, list(path))
                ctx.check("data_index returns addressed leaf", got is leaf or np.array_equal(np.asarray(got), np.asarray(leaf)), lambda: dict(desc(), path=path),
                          mechanism="data_index")
            except Exception as e:
                ctx.violation("data_index returns addressed leaf", ctx.exc_witness(e, path=path, **desc()), mechanism="data_index raises")
        # data_shape / data_map
        try:
            ok = D.data_shape(d) == n and same(D.data_map(d, lambda x: x), d)
            shapes = D.data_shape(d, all_list=True)
            ok = ok and len(shapes) == nl
            ctx.check("data_shape/data_map", ok, desc, mechanism="data_shape/data_map")
        except Exception as e:
            ctx.violation("data_shape/data_map", ctx.exc_witness(e, **desc()), mechanism="data_shape raises")
        if i < 3:
            ctx.sample({"section": "structures", "n": n, "structure": D.data_struct(d), "batches": batches})

    # ------------------------------------------------------------ file round trips of momenta
    import itertools

    from tf_pwa.cal_angle import CalAngleData

    n_f = ctx.pick(24, 400)
    for i, rng in ctx.cases("files", n_f, budget_s=ctx.pick(200, 1500)):
        tag = "_c18s%di%d" % (ctx.seed, i)
        nb = 3 + i % 2
        try:
            card = cards.CardGen(rng, tag, nbody=nb, n_chains=(1, 2), final_j2=(0, 0, 2), res_j2_int=(0, 2), res_j2_half=(1,)).make()
        except RuntimeError:
            continue
        # distinct masses make the particle assignment observable
        for k_, f in enumerate(card["meta"]["finals"]):
            f["mass"] = 0.1 + 0.17 * k_
            card["config"]["particle"]["$finals"][f["name"]]["mass"] = f["mass"]
        card["meta"]["top"]["mass"] = 3.0
        card["config"]["particle"]["$top"][card["meta"]["top"]["name"]]["mass"] = 3.0
        for r in card["meta"]["resonances"]:
            card["config"]["particle"][r["name"]]["mass"] = 1.5
        names = [f["name"] for f in card["meta"]["finals"]]
        n = int(rng.choice([1, 5, 40]))
        ps = cards.events(card, n, rng, classes=False)
        wd = os.getcwd()
        perms = list(itertools.permutations(range(nb)))
        perm = perms[i % len(perms)]
        order = [names[j] for j in perm]
        desc = lambda: {"config": card["config"], "dat_order": order, "n": n}
        try:
            cfg = cards.load(card, extra_data={"dat_order": order})
            data = cfg.data.cal_angle([np.ascontiguousarray(ps[j]) for j in perm])
            byname = lambda dd: {str(k): np.asarray(v["p"]) for k, v in dd["particle"].items() if str(k) in names}
            ref = byname(data)
            ok0 = all(np.array_equal(ref[names[j]], ps[j]) for j in range(nb))
            ctx.check("momenta file round trip", ok0, desc, mechanism="cal_angle particle assignment (dat_order)")
            for ext in ("dat", "npy"):
                fn = os.path.join(wd, "mom_%d.%s" % (i, ext))
                cfg.data.savetxt(fn, data)
                loaded = cfg.data.load_data([fn])
                got = byname(loaded)
                ok = all(np.allclose(got[nm], ref[nm], rtol=1e-15, atol=0) for nm in names) and (ext == "dat" or all(np.array_equal(got[nm], ref[nm]) for nm in names))
                ctx.check("momenta file round trip", ok, lambda: dict(desc(), ext=ext), mechanism="SimpleData.savetxt -> load_data (%s)" % ext)
            # CalAngleData.savetxt with explicit order, then load_dat_file directly
            fn = os.path.join(wd, "cad_%d.dat" % i)
            CalAngleData(data).savetxt(fn, order=order)
            raw = D.load_dat_file(fn, order)
            ok = all(np.allclose(np.asarray(raw[nm]), ref[nm], rtol=1e-15, atol=0) for nm in order)
            ctx.check("momenta file round trip", ok, desc, mechanism="CalAngleData.savetxt -> load_dat_file")
            # the same writer with the charge column saved beside the momenta (save_charge=True): file names with an extension, without
            # one, and inside a directory whose name contains a dot - the momentum file must still read back as written
            charges = rng.choice([-1.0, 1.0], n)
            dwc = dict(data)
            dwc["charge_conjugation"] = charges
            for sub_, base_ in (("", "cadq_%d.dat" % i), ("", "cadq_noext_%d" % i), ("run.v%d" % i, "cadq")):
                dd_ = os.path.join(wd, sub_) if sub_ else wd
                os.makedirs(dd_, exist_ok=True)
                fnq = os.path.join(dd_, base_)
                before_files = set(os.listdir(dd_))
                CalAngleData(dwc).savetxt(fnq, order=order, save_charge=True)
                try:
                    raw = D.load_dat_file(fnq, order)
                    okq = all(np.asarray(raw[nm]).shape == ref[nm].shape and np.allclose(np.asarray(raw[nm]), ref[nm], rtol=1e-15, atol=0) for nm in order)
                except Exception:
                    okq = False  # the momentum file no longer holds (n x particles) four-vectors
                new_files = sorted(set(os.listdir(dd_)) - before_files - {base_})
                okc = len(new_files) == 1 and np.array_equal(np.loadtxt(os.path.join(dd_, new_files[0])).reshape((-1,)), charges)
                kind_ = "name with extension" if base_.endswith(".dat") else ("name without extension" if not sub_ else "directory name with a dot")
                ctx.check("momenta file round trip", bool(okq and okc), lambda: dict(desc(), file=os.path.relpath(fnq, wd), momenta_read_back=bool(okq), charge_file=new_files,
                                                                                  charge_file_ok=bool(okc)),
                          mechanism="CalAngleData.savetxt(save_charge=True) -> load_dat_file (%s)" % kind_)
            # writing with the charge-conjugation transform undone (cp_trans=True) from a sample whose leaves are NumPy arrays (as after
            # data_to_numpy or a cached-data file): the files hold (E, c px, c py, c pz), the sample itself is left as it was, and a second
            # write of the same sample gives the same file
            try:
                dnp = D.data_to_numpy({k_: v_ for k_, v_ in data.items()})
                dnp["charge_conjugation"] = charges.copy()
                mom_before = {nm: np.array(np.asarray(D.data_index(dnp, ("particle", [p_ for p_ in dnp["particle"] if str(p_) == nm][0], "p")))) for nm in names}
                fa, fb = os.path.join(wd, "cadcp_a_%d.dat" % i), os.path.join(wd, "cadcp_b_%d.dat" % i)
                CalAngleData(dnp).savetxt(fa, order=order, cp_trans=True)
                CalAngleData(dnp).savetxt(fb, order=order, cp_trans=True)
                mom_after = {nm: np.asarray(D.data_index(dnp, ("particle", [p_ for p_ in dnp["particle"] if str(p_) == nm][0], "p"))) for nm in names}
                ra, rb = D.load_dat_file(fa, order), D.load_dat_file(fb, order)
                cc = charges[:, None] * np.array([0.0, 1.0, 1.0, 1.0]) + np.array([1.0, 0.0, 0.0, 0.0])
                ok_file = all(np.allclose(np.asarray(ra[nm]), mom_before[nm] * cc, rtol=1e-15, atol=0) for nm in order)
                ok_same = all(np.array_equal(np.asarray(ra[nm]), np.asarray(rb[nm])) for nm in order)
                ok_live = all(np.array_equal(mom_before[nm], mom_after[nm]) for nm in names)
                ctx.check("momenta file round trip", bool(ok_file and ok_same and ok_live),
                          lambda: dict(desc(), first_file_ok=bool(ok_file), second_write_identical=bool(ok_same), sample_unchanged_by_writing=bool(ok_live), negative_charges=int(np.sum(charges < 0))),
                          mechanism="CalAngleData.savetxt(cp_trans=True) from NumPy leaves: " + ("file content" if not ok_file else "sample modified / second write differs"))
            except Exception as e:
                ctx.violation("momenta file round trip", ctx.exc_witness(e, **desc()), mechanism="CalAngleData.savetxt(cp_trans=True) raises")
            # multi-file input: the particles are distributed over several files (k particles in the first, the rest in the second)
            arr = np.stack([ps[j] for j in perm]).transpose((1, 0, 2))  # (n, nb, 4)
            if n >= 5:
                k1 = 1 + i % (nb - 1)
                f1, f2 = os.path.join(wd, "mf1_%d.dat" % i), os.path.join(wd, "mf2_%d.npy" % i)
                np.savetxt(f1, arr[:, :k1].reshape((-1, 4)))
                np.save(f2, arr[:, k1:])
                got = byname(cfg.data.load_data([f1, f2]))
                ok = all(np.allclose(got[nm], ref[nm], rtol=1e-15, atol=0) for nm in names)
                ctx.check("momenta file round trip", ok, lambda: dict(desc(), particles_in_first_file=k1), mechanism="multi-file load_data")
                f3 = os.path.join(wd, "mz_%d.npz" % i)
                np.savez(f3, arr)
                got = D.load_dat_file(f3, order)
                ok = all(np.array_equal(np.asarray(got[nm]), ps[names.index(nm)]) for nm in order)
                ctx.check("momenta file round trip", ok, desc, mechanism="npz load_dat_file")
            # structured data: save_data / save_dataz / load_data ; cached_data path
            np_data = D.data_to_numpy(data)
            for saver, fn in ((D.save_data, os.path.join(wd, "sd_%d.npy" % i)), (D.save_dataz, os.path.join(wd, "sz_%d.npz" % i))):
                saver(fn, np_data)
                back = D.load_data(fn)
                flat_a = D.flatten_dict_data(np_data)
                flat_b = D.flatten_dict_data(back)
                ok = set(map(str, flat_a)) == set(map(str, flat_b)) and all(
                    np.array_equal(np.asarray(flat_a[k]), np.asarray({str(kk): vv for kk, vv in flat_b.items()}[str(k)])) for k in flat_a)
                ctx.check("structured data file round trip", ok, lambda: dict(desc(), saver=saver.__name__), mechanism="save/load structured data: " + saver.__name__)
            # the loader's cached-data file: the first ConfigLoader computes data/phsp/bg and writes the cache, a fresh one reads it
            if i % 3 == 1 and n >= 5:
                import copy

                from tf_pwa.config_loader import ConfigLoader

                def mom_file(tag2, m):
                    psx = cards.events(card, m, rng, classes=False)
                    fnx = os.path.join(wd, "cd_%s_%d.dat" % (tag2, i))
                    np.savetxt(fnx, np.stack([psx[j] for j in perm]).transpose((1, 0, 2)).reshape((-1, 4)))
                    return fnx

                wfile = os.path.join(wd, "cd_w_%d.dat" % i)
                np.savetxt(wfile, rng.uniform(0.3, 1.7, n + 3))
                cfgd = copy.deepcopy(card["config"])
                cache = os.path.join(wd, "cache_%d.npy" % i)
                scale = bool(i % 2)
                cfgd["data"] = {"dat_order": order, "data": [mom_file("data", n + 3)], "phsp": [mom_file("phsp", 2 * n)], "bg": [mom_file("bg", n)],
                                "data_weight": [wfile], "cached_data": cache, "weight_scale": scale, "bg_weight": 0.4}
                with contextlib.redirect_stdout(io.StringIO()):
                    first = ConfigLoader(copy.deepcopy(cfgd)).get_all_data()
                    second = ConfigLoader(copy.deepcopy(cfgd)).get_all_data()
                ok_c, bad_c = os.path.exists(cache), []
                for nm_, a_, b_ in zip(("data", "phsp", "bg"), first, second):
                    fa_ = {str(k): np.asarray(v) for k, v in D.flatten_dict_data(D.data_to_numpy(a_[0])).items()}
                    fb_ = {str(k): np.asarray(v) for k, v in D.flatten_dict_data(D.data_to_numpy(b_[0])).items()}
                    for k in fa_:
                        if k not in fb_ or fa_[k].shape != fb_[k].shape or not np.array_equal(fa_[k], fb_[k]):
                            ok_c = False
                            bad_c.append((nm_, k, fa_[k].ravel()[:2].tolist(), None if k not in fb_ else fb_[k].ravel()[:2].tolist()))
                ctx.check("structured data file round trip", ok_c, lambda: dict(desc(), weight_scale=scale, differing=bad_c[:3]),
                          mechanism="cached_data file (weight_scale=%s): leaves differ after reading the cache back" % scale)
                ctx.covered("cached_data_weight_scale", scale)
            ctx.case(("file", nb, perm, n), nontrivial=True)
            ctx.covered("dat_order_perm", perm)
            # lazy vs eager.  LazyCall recomputes the preprocessor output per batch; (aligned) angles carry the library's
            # acos noise floor (beta = acos(1-k*eps) ~ 3e-8 for identity alignment rotations), everything else must agree to 1e-12
            def close(k_, a_, b_):
                a_, b_ = np.asarray(a_), np.asarray(b_)
                ks = str(k_)
                if ks.endswith("aligned_angle/alpha") or ks.endswith("aligned_angle/gamma"):
                    # for an (almost) identity alignment rotation only alpha+gamma is defined; the rotation itself is compared by C05
                    return a_.shape == b_.shape
                tol = 1e-6 if "ang" in ks else 1e-12
                return a_.shape == b_.shape and np.allclose(a_, b_, rtol=tol, atol=tol)

            if i % 3 == 0:
                for lopts in ({"lazy_call": True}, {"lazy_call": True, "lazy_file": True}):
                    lc = cards.load(card, extra_data=dict(lopts, dat_order=order))
                    lazy = lc.data.cal_angle([np.ascontiguousarray(ps[j]) for j in perm])
                    lazy["extra_col"] = np.arange(n, dtype=float)
                    ev = D.data_to_numpy(lazy.eval())
                    fa = D.flatten_dict_data(np_data)
                    fb = {str(k): v for k, v in D.flatten_dict_data(ev).items()}
                    ok = all(close(k, fa[k], fb[str(k)]) for k in fa) and np.array_equal(fb["extra_col"], np.arange(n))
                    ctx.check("lazy == eager", ok, lambda: dict(desc(), lazy=lopts), mechanism="LazyCall.eval vs eager")
                    if n >= 5:
                        parts = [D.data_to_numpy(p) for p in lazy.as_dataset(3)]
                        merged = D.data_to_numpy(D.data_merge(*parts))
                        fm = {str(k): v for k, v in D.flatten_dict_data(merged).items()}
                        ok = all(close(k, fa[k], fm[str(k)]) for k in fa) and np.array_equal(np.asarray(fm["extra_col"]), np.arange(n))
                        bad = [str(k) for k in fa if not close(k, fa[k], fm[str(k)])]
                        ctx.check("lazy == eager", ok and len(parts) == -(-n // 3), lambda: dict(desc(), lazy=lopts, n_parts=len(parts), differing=bad[:3],
                                  first=[np.asarray(fa[k]).tolist()[:3] for k in fa if str(k) in bad[:1]], second=[np.asarray(fm[k]).tolist()[:3] for k in bad[:1]]), mechanism="LazyCall.as_dataset batches vs eager")
                        cp = lazy.copy()
                        mg = D.data_merge(lazy, cp)
                        ok = len(mg) == 2 * n
                        ctx.check("lazy == eager", ok, lambda: dict(desc(), lazy=lopts), mechanism="LazyCall merge/copy length")
                    # replacing a leaf on a copy (data_replace, as Model.nll_grad_hessian and the plotting code do with the weights)
                    # yields the new content in the copy and leaves the ORIGINAL lazy sample equal to the eager one
                    w_old = np.linspace(0.5, 1.5, n)
                    lazy["weight"] = w_old.copy()
                    eager = dict(np_data, weight=w_old.copy(), extra_col=np.arange(n, dtype=float))
                    w_new = np.full(n, 7.0)
                    lz2 = D.data_replace(lazy, "weight", w_new)
                    eg2 = D.data_replace(eager, "weight", w_new)
                    cp2 = lazy.copy()
                    cp2["extra_col"] = -np.arange(n, dtype=float)
                    ev0 = {str(k): v for k, v in D.flatten_dict_data(D.data_to_numpy(lazy.eval())).items()}
                    ev2 = {str(k): v for k, v in D.flatten_dict_data(D.data_to_numpy(lz2.eval())).items()}
                    ok0 = np.array_equal(np.asarray(ev0["weight"]), eager["weight"]) and np.array_equal(np.asarray(ev0["extra_col"]), eager["extra_col"]) \
                        and np.array_equal(np.asarray(D.data_to_numpy(lazy.get_weight()) if hasattr(lazy, "get_weight") else ev0["weight"]), w_old)
                    ok2 = np.array_equal(np.asarray(ev2["weight"]), np.asarray(eg2["weight"])) and np.array_equal(np.asarray(eager["weight"]), w_old)
                    ctx.check("lazy == eager", bool(ok0 and ok2), lambda: dict(desc(), lazy=lopts, original_weight=np.asarray(ev0["weight"])[:3], replaced_weight=np.asarray(ev2["weight"])[:3],
                                                                              original_extra=np.asarray(ev0["extra_col"])[:3]),
                              mechanism="LazyCall after data_replace / copy-then-set: original " + ("changed" if not ok0 else "ok") + ", copy " + ("wrong" if not ok2 else "ok"))
        except Exception as e:
            ctx.violation("momenta file round trip", ctx.exc_witness(e, **desc()), mechanism="file round trip raises")
        if i < 2:
            ctx.sample({"section": "files", "dat_order": order, "n": n, "formats": ["dat", "npy", "npz", "save_data", "save_dataz"]})

    # ------------------------------------------------------------ lazily evaluated samples through the loader (files, several groups)
    from tf_pwa.config_loader import ConfigLoader

    LAZY_VARIANTS = [
        ("lazy_call", {"lazy_call": True}),
        ("lazy_call+lazy_file", {"lazy_call": True, "lazy_file": True}),
        ("lazy_call+memory cache", {"lazy_call": True, "cached_lazy_call": ""}),
        ("lazy_call+disk cache", {"lazy_call": True, "cached_lazy_call": "DISK"}),
        ("lazy_call+lazy_file+disk cache", {"lazy_call": True, "lazy_file": True, "cached_lazy_call": "DISK"}),
    ]
    n_l = ctx.pick(len(LAZY_VARIANTS) * 2, len(LAZY_VARIANTS) * 16)
    for i, rng in ctx.cases("lazy", n_l, budget_s=ctx.pick(250, 1500)):
        vname, vopts = LAZY_VARIANTS[i % len(LAZY_VARIANTS)]
        rnd = i // len(LAZY_VARIANTS)
        tag = "_c18Ls%di%d" % (ctx.seed, i)
        try:
            card = cards.CardGen(rng, tag, nbody=3, n_chains=(1, 2), final_j2=(0, 0, 2), res_j2_int=(0, 2), res_j2_half=(1,)).make()
        except RuntimeError:
            continue
        names = [f["name"] for f in card["meta"]["finals"]]
        wd = os.getcwd()
        sizes = {"data": [int(rng.integers(6, 15)), int(rng.integers(4, 12))], "bg": [int(rng.integers(3, 9)), int(rng.integers(3, 9))]}
        files, wfiles = {}, {}
        for kind, ns in sizes.items():
            files[kind], wfiles[kind] = [], []
            for g, m_ in enumerate(ns):
                psx = cards.events(card, m_, rng, classes=False)
                fnx = os.path.join(wd, "lz_%s%d_%d.npy" % (kind, g, i))
                np.save(fnx, np.stack(psx).transpose((1, 0, 2)))
                wfn = os.path.join(wd, "lz_w_%s%d_%d.dat" % (kind, g, i))
                np.savetxt(wfn, rng.uniform(0.3, 1.7, m_))
                files[kind].append([fnx])
                wfiles[kind].append([wfn])
        base = {"dat_order": names, "data": files["data"], "bg": files["bg"], "data_weight": wfiles["data"], "bg_weight": wfiles["bg"]}
        opts = dict(vopts)
        if opts.get("cached_lazy_call") == "DISK":
            opts["cached_lazy_call"] = os.path.join(wd, "lzcache_%d" % i) + "/"
        desc = lambda: {"variant": vname, "options": vopts, "sizes": sizes, "config": card["config"]}
        ctx.context = {"variant": vname}

        def close(k_, a_, b_):
            a_, b_ = np.asarray(a_), np.asarray(b_)
            ks = str(k_)
            if ks.endswith("aligned_angle/alpha") or ks.endswith("aligned_angle/gamma"):
                return a_.shape == b_.shape
            tol = 1e-6 if "ang" in ks else 1e-12
            return a_.shape == b_.shape and np.allclose(a_, b_, rtol=tol, atol=tol)

        def flat(d_):
            return {str(k): np.asarray(v) for k, v in D.flatten_dict_data(D.data_to_numpy(d_)).items()}

        def differs(want, got):
            bad = [k for k in want if k not in got or not close(k, want[k], got[k])]
            return bad

        try:
            with contextlib.redirect_stdout(io.StringIO()):
                cfgd = __import__("copy").deepcopy(card["config"])
                cfgd["data"] = dict(base)
                eager_cfg = ConfigLoader(__import__("copy").deepcopy(cfgd))
                e_data, e_bg = eager_cfg.get_data("data"), eager_cfg.get_data("bg")
                cfgl = __import__("copy").deepcopy(card["config"])
                cfgl["data"] = dict(base, **opts)
                lazy_cfg = ConfigLoader(cfgl)
                l_data, l_bg = lazy_cfg.get_data("data"), lazy_cfg.get_data("bg")
            for g in range(2):
                for kind, lz, eg in (("data", l_data[g], e_data[g]), ("bg", l_bg[g], e_bg[g])):
                    n = sizes[kind][g]
                    want = flat(eg)
                    ctx.check("lazy == eager", isinstance(lz, D.LazyCall) and not differs(want, flat(lz.eval())),
                              lambda: dict(desc(), sample=kind, group=g, differing=differs(want, flat(lz.eval()))[:3]), mechanism="lazy sample eval() vs eager (%s)" % vname)
                    # batch-wise iteration, every batch size twice (the second pass takes the cached path), sizes interleaved
                    for b in (3, n, 4, 3, n + 1):
                        parts = [D.data_to_numpy(p_) for p_ in D.data_split(lz, b)]
                        got = flat(D.data_merge(*parts)) if parts else {}
                        okb = len(parts) == -(-n // b) and not differs(want, got)
                        ctx.check("lazy batches == eager", okb, lambda: dict(desc(), sample=kind, group=g, batch=b, n=n, n_batches=len(parts), differing=differs(want, got)[:3],
                                                                             got_len={k: v.shape[0] for k, v in list(got.items())[:3]}),
                                  mechanism="lazy sample iterated in batches vs eager (%s)" % vname)
                # merging lazy samples (data + bg, as the likelihood does): content and batch-wise iteration of the merged sample,
                # with the operands iterated before or after it
                first_merged = (rnd + g) % 2 == 0
                want_m = flat(D.data_merge(e_data[g], e_bg[g]))
                n_m = sizes["data"][g] + sizes["bg"][g]

                def check_merged():
                    mg = D.data_merge(l_data[g], l_bg[g])
                    bad_e = differs(want_m, flat(mg.eval()))
                    parts = [D.data_to_numpy(p_) for p_ in D.data_split(mg, 4)]
                    lens = sorted({int(np.asarray(v).shape[0]) for p_ in parts for v in D.flatten_dict_data(p_).values()}) if parts else []
                    try:
                        got = flat(D.data_merge(*parts))
                        bad_b = differs(want_m, got)
                    except Exception as e_:
                        bad_b = ["merge of the batches raises: " + repr(e_)[:120]]
                    ctx.check("lazy batches == eager", not bad_e and not bad_b and len(parts) == -(-n_m // 4),
                              lambda: dict(desc(), group=g, merged_first=first_merged, n=n_m, n_batches=len(parts), leaf_lengths_in_batches=lens, eval_differs=bad_e[:3], batches_differ=bad_b[:3]),
                              mechanism="merged lazy samples (data+bg) vs eager merge (%s)" % vname)

                def check_operand():
                    parts = [D.data_to_numpy(p_) for p_ in D.data_split(l_data[g], 4)]
                    got = flat(D.data_merge(*parts))
                    bad = differs(flat(e_data[g]), got)
                    ctx.check("lazy batches == eager", not bad, lambda: dict(desc(), group=g, merged_first=first_merged, differing=bad[:3]),
                              mechanism="lazy operand iterated %s the merged sample vs eager (%s)" % ("after" if first_merged else "before", vname))

                for step in ((check_merged, check_operand) if first_merged else (check_operand, check_merged)):
                    step()
            ctx.case(("lazy", vname, rnd), nontrivial=True)
            ctx.covered("lazy_variant", vname)
        except Exception as e:
            ctx.violation("lazy == eager", ctx.exc_witness(e, **desc()), mechanism="lazy sample raises (%s)" % vname)
        # a lazy sample WITHOUT any column stored beside it (no weights) iterated in more than 1000 batches (1.5 million events at the
        # default batch size look the same): every batch must arrive
        try:
            n_big = int(rng.integers(1100, 1600))
            arr_big = rng.normal(size=n_big)
            lz_big = D.LazyCall(lambda x_: {"a": x_["a"] * 2.0}, {"a": arr_big})
            parts = list(D.data_split(lz_big, 1))
            got_big = np.concatenate([np.asarray(p_["a"]).reshape((-1,)) for p_ in parts]) if parts else np.zeros(0)
            ctx.check("lazy batches == eager", len(parts) == n_big and np.array_equal(got_big, arr_big * 2.0),
                      lambda: {"n_events": n_big, "batch": 1, "batches_returned": len(parts), "columns_beside_the_sample": []},
                      mechanism="lazy sample without extra columns iterated in more than 1000 batches")
        except Exception as e:
            ctx.violation("lazy batches == eager", ctx.exc_witness(e), mechanism="lazy sample without extra columns raises")
        # a bare LazyFile (memory-mapped input without a preprocessor) split twice with the same batch size
        try:
            n = int(rng.integers(5, 12))
            raw = {"a": rng.normal(size=(n, 2)), "b": {"c": rng.normal(size=n)}}
            lf = D.LazyFile(raw)
            lf["w"] = np.arange(n, dtype=float)
            want = {"a": raw["a"], "b/c": raw["b"]["c"], "w": np.arange(n, dtype=float)}
            for rep in range(2):
                parts = [D.data_to_numpy(p_) for p_ in D.data_split(lf, 4)]
                got = flat(D.data_merge(*parts))
                okf = set(got) == set(want) and all(np.array_equal(got[k], want[k]) for k in want)
                ctx.check("lazy batches == eager", okf, lambda: {"n": n, "pass": rep + 1, "leaves_returned": sorted(got), "leaves_expected": sorted(want)},
                          mechanism="LazyFile split in batches (pass %d)" % (rep + 1))
        except Exception as e:
            ctx.violation("lazy batches == eager", ctx.exc_witness(e), mechanism="LazyFile split raises")
