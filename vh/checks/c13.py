"""C13 - partial-wave (l,s) selection is sound, complete and non-redundant."""
import itertools

import numpy as np

LEVEL = "exploration"
SHARDS = {"quick": 12, "thorough": 16}
TIMEOUT = {"quick": 500, "thorough": 3000}
RULE = (
    "exhaustive over (J_A,J_B,J_C) in {0,1/2,...,4}^3 (729 triples incl. fermion-number-inconsistent ones, which must give "
    "an empty list) x 8 parity combinations x {parity conserving, violating} x C in {None,+1,-1}: GetA2BC_LS_list vs a "
    "brute-force reference (all tiers); Decay/HelicityDecay.get_ls_list incl. l_list / ls_list restrictions for spins <=3 "
    "(quick) / <=4 (thorough); rank of get_cg_matrix() for spins <=2 (quick) / <=5/2 (thorough). non-trivial = reference "
    "list has >= 2 entries; distinct = distinct (J_A,J_B,J_C,P_A,P_B,P_C,p_break,C,restriction) tuple."
)
ASSUMPTIONS = [
    "reference: s in |jb-jc|..jb+jc, integer l>=0 with |l-s|<=ja<=l+s, P_A=P_B P_C (-1)^l unless p_break, C_A=(-1)^(l+s) when a C constraint is requested (integer spins)",
    "independent helicity amplitudes counted as pairs |lb-lc|<=ja, halved by the parity relation with the (0,0) pair kept only for eta=+1",
    "unique particle names per case (the library caches CG matrices by particle names)",
    "an explicit ls_list is taken as the user's choice: only sub-lists of the allowed set are used as restrictions",
]
EXHAUSTIVE_PART = "GetA2BC_LS_list over the whole stated table (all tiers); object-level lists and rank over the tier's spin range"
REQUIRE = {
    "monitors": {
        "GetA2BC_LS_list==reference set": 5000,
        "GetA2BC_LS_list no duplicates": 5000,
        "Decay.get_ls_list==reference": 200,
        "HelicityDecay.get_ls_list==reference": 200,
        "l_list restriction": 50,
        "ls_list restriction": 50,
        "symbolic cg_matrix == numeric cg_matrix": 10,
        "cg_matrix full rank": 100,
        "n_ls==independent helicity amplitudes": 100,
    },
    "min_nontrivial": 1000,
}
LEVEL_TEXT = ("Runtime monitors on GetA2BC_LS_list, Decay/HelicityDecay.get_ls_list and get_cg_matrix compared with a brute-force "
              "selection-rule reference and a helicity-amplitude count; the stated finite table is enumerated completely for the "
              "function and over the tier's spin range for the object-level lists and the rank.")
TECHNIQUE = "differential runtime monitor vs brute-force reference (exhaustive table) + rank monitor on the real CG matrices"


def num(x2):
    return x2 // 2 if x2 % 2 == 0 else x2 / 2.0


def ref_ls(ja2, jb2, jc2, pa, pb, pc, p_break, ca):
    """brute force on doubled spins; returns list of (l, s) with s as python number."""
    out = []
    if (ja2 + jb2 + jc2) % 2:
        return out
    for s2 in range(abs(jb2 - jc2), jb2 + jc2 + 1, 2):
        for l in range(0, (ja2 + s2) // 2 + 2):
            l2 = 2 * l
            if not (abs(l2 - s2) <= ja2 <= l2 + s2):
                continue
            if (l2 + s2 + ja2) % 2:
                continue
            if not p_break and pa != pb * pc * (-1) ** l:
                continue
            if ca is not None:
                if s2 % 2:
                    continue
                if ca != (-1) ** (l + s2 // 2):
                    continue
            out.append((l, num(s2)))
    return out


def n_indep_hel(ja2, jb2, jc2, pa, pb, pc, p_break):
    pairs = [(b, c) for b in range(-jb2, jb2 + 1, 2) for c in range(-jc2, jc2 + 1, 2) if abs(b - c) <= ja2]
    if p_break:
        return len(pairs)
    n00 = 1 if (0, 0) in pairs else 0
    eta = pa * pb * pc * (-1) ** ((ja2 - jb2 - jc2) // 2)
    return (len(pairs) - n00) // 2 + (n00 if eta == 1 else 0)


def norm(ls):
    return sorted((int(l), float(s)) for l, s in ls)


def run(ctx):
    from tf_pwa.amp import HelicityDecay, Particle
    from tf_pwa.particle import BaseParticle, Decay, GetA2BC_LS_list

    spins2 = list(range(0, 9))
    par = (1, -1)
    uid = [0]

    def names():
        uid[0] += 1
        return ["%s_%d_%d_%d" % (x, ctx.seed, ctx.shard, uid[0]) for x in "ABC"]

    # ------------------------------------------------------------ function level, exhaustive
    if ctx.section_active("function"):
        k = 0
        for ja2, jb2, jc2 in itertools.product(spins2, repeat=3):
            k += 1
            if not ctx.owns(k):
                continue
            integer = ja2 % 2 == 0 and jb2 % 2 == 0 and jc2 % 2 == 0
            for pa, pb, pc in itertools.product(par, repeat=3):
                for p_break in (False, True):
                    for ca in ((None, 1, -1) if integer else (None,)):
                        want = ref_ls(ja2, jb2, jc2, pa, pb, pc, p_break, ca)
                        try:
                            got = GetA2BC_LS_list(num(ja2), num(jb2), num(jc2), pa, pb, pc, p_break=p_break, ca=ca)
                        except Exception as e:
                            ctx.violation("GetA2BC_LS_list==reference set", ctx.exc_witness(e, args=(ja2, jb2, jc2, pa, pb, pc, p_break, ca)),
                                          mechanism="GetA2BC_LS_list raises")
                            continue
                        desc = {"2J": (ja2, jb2, jc2), "P": (pa, pb, pc), "p_break": p_break, "C": ca}
                        ctx.check("GetA2BC_LS_list==reference set", norm(got) == norm(want),
                                  lambda: dict(desc, lib=list(got), ref=want), mechanism="GetA2BC_LS_list set")
                        ctx.check("GetA2BC_LS_list no duplicates", len(got) == len(set(norm(got))),
                                  lambda: dict(desc, lib=list(got)), mechanism="GetA2BC_LS_list duplicates")
                        ctx.case(("f", ja2, jb2, jc2, pa, pb, pc, p_break, ca), nontrivial=len(want) >= 2)
            # parities unknown => treated as parity violating
            got = GetA2BC_LS_list(num(ja2), num(jb2), num(jc2))
            want = ref_ls(ja2, jb2, jc2, 1, 1, 1, True, None)
            ctx.check("GetA2BC_LS_list==reference set", norm(got) == norm(want), {"2J": (ja2, jb2, jc2), "P": None},
                      mechanism="GetA2BC_LS_list no parity")
        ctx.sample({"section": "function", "J": [1, 0.5, 0.5], "P": [-1, 1, 1], "p_break": False,
                    "lib": list(GetA2BC_LS_list(1, 0.5, 0.5, -1, 1, 1)), "ref": ref_ls(2, 1, 1, -1, 1, 1, False, None)})

    # ------------------------------------------------------------ object level
    jmax_obj = ctx.pick(6, 8)
    jmax_rank = ctx.pick(4, 5)
    if ctx.section_active("objects"):
        k = 0
        for ja2, jb2, jc2 in itertools.product(range(0, jmax_obj + 1), repeat=3):
            if (ja2 + jb2 + jc2) % 2:
                continue
            k += 1
            if not ctx.owns(k):
                continue
            integer = ja2 % 2 == 0 and jb2 % 2 == 0 and jc2 % 2 == 0
            rng = np.random.default_rng([ctx.seed, ja2, jb2, jc2])
            for pa, pb, pc in itertools.product(par, repeat=3):
                for p_break in (False, True):
                    for ca in ((None, 1, -1) if integer and pa == 1 else (None,)):
                        want = ref_ls(ja2, jb2, jc2, pa, pb, pc, p_break, ca)
                        desc = {"2J": (ja2, jb2, jc2), "P": (pa, pb, pc), "p_break": p_break, "C": ca}
                        na, nb, nc = names()
                        kw = dict(p_break=p_break, c_break=(ca is None))
                        # plain Decay
                        A = BaseParticle(na + "b", J=num(ja2), P=pa, C=ca)
                        B = BaseParticle(nb + "b", J=num(jb2), P=pb)
                        C = BaseParticle(nc + "b", J=num(jc2), P=pc)
                        d0 = Decay(A, [B, C], **kw)
                        got = d0.get_ls_list()
                        ctx.check("Decay.get_ls_list==reference", norm(got) == norm(want) and len(got) == len(set(got)),
                                  lambda: dict(desc, lib=list(got), ref=want), mechanism="Decay.get_ls_list")
                        # amplitude-level HelicityDecay
                        A = Particle(na, J=num(ja2), P=pa, C=ca)
                        B = Particle(nb, J=num(jb2), P=pb)
                        C = Particle(nc, J=num(jc2), P=pc)
                        d1 = HelicityDecay(A, [B, C], **kw)
                        got1 = d1.get_ls_list()
                        ok1 = norm(got1) == norm(want) and len(got1) == len(set(got1))
                        ctx.check("HelicityDecay.get_ls_list==reference", ok1, lambda: dict(desc, lib=list(got1), ref=want),
                                  mechanism="HelicityDecay.get_ls_list")
                        ctx.case(("o", ja2, jb2, jc2, pa, pb, pc, p_break, ca), nontrivial=len(want) >= 2)
                        if not want:
                            # chains without allowed ls must be rejected by check_valid_jp
                            try:
                                d1.check_valid_jp()
                                ctx.violation("check_valid_jp rejects empty", desc, mechanism="check_valid_jp accepts empty ls")
                            except ValueError:
                                ctx.check("check_valid_jp rejects empty", True)
                            continue
                        # restrictions
                        ls_all = sorted({l for l, s in want})
                        if len(ls_all) >= 2:
                            sub_l = [ls_all[i_] for i_ in sorted(rng.choice(len(ls_all), size=int(rng.integers(1, len(ls_all))), replace=False))]
                            na, nb, nc = names()
                            d2 = HelicityDecay(Particle(na, J=num(ja2), P=pa, C=ca), [Particle(nb, J=num(jb2), P=pb), Particle(nc, J=num(jc2), P=pc)],
                                               l_list=sub_l, **kw)
                            g2 = d2.get_ls_list()
                            w2 = [x for x in norm(want) if x[0] in sub_l]
                            # order of the unrestricted list must be preserved
                            order_ok = [x for x in norm_keep(got1) if x[0] in sub_l] == norm_keep(g2)
                            ctx.check("l_list restriction", norm(g2) == w2 and order_ok and norm(d2.get_ls_list()) == w2,
                                      lambda: dict(desc, l_list=sub_l, lib=list(g2), ref=w2), mechanism="l_list restriction")
                            ctx.case(("ol", ja2, jb2, jc2, pa, pb, pc, p_break, ca, tuple(sub_l)), nontrivial=True)
                        if len(want) >= 2:
                            idx = sorted(rng.choice(len(want), size=int(rng.integers(1, len(want))), replace=False))
                            sub = [list(got1)[i_] for i_ in idx]
                            if rng.random() < 0.5:
                                sub = sub[::-1]
                            na, nb, nc = names()
                            d3 = HelicityDecay(Particle(na, J=num(ja2), P=pa, C=ca), [Particle(nb, J=num(jb2), P=pb), Particle(nc, J=num(jc2), P=pc)],
                                               ls_list=[list(x) for x in sub], **kw)
                            g3 = d3.get_ls_list()
                            ctx.check("ls_list restriction", norm_keep(g3) == norm_keep(sub), lambda: dict(desc, ls_list=sub, lib=list(g3)),
                                      mechanism="ls_list restriction")
                            ctx.case(("os", ja2, jb2, jc2, pa, pb, pc, p_break, ca, tuple(map(tuple, sub))), nontrivial=True)
                        # rank
                        if max(ja2, jb2, jc2) <= jmax_rank:
                            try:
                                m = np.array(d1.get_cg_matrix(), dtype=float)
                            except Exception as e:
                                ctx.violation("cg_matrix full rank", ctx.exc_witness(e, **desc), mechanism="get_cg_matrix raises")
                                continue
                            n_ls = len(want)
                            shape_ok = m.shape == (n_ls, jb2 + 1, jc2 + 1)
                            mm = m.reshape(m.shape[0], -1)
                            rank = int(np.linalg.matrix_rank(mm, tol=1e-9)) if mm.size else 0
                            ctx.check("cg_matrix full rank", shape_ok and rank == n_ls,
                                      lambda: dict(desc, shape=m.shape, rank=rank, n_ls=n_ls), mechanism="cg_matrix rank")
                            # forced zeros: entries outside |lb-lc|<=ja vanish
                            zero_ok = True
                            for ib, b in enumerate(range(-jb2, jb2 + 1, 2)):
                                for ic, c in enumerate(range(-jc2, jc2 + 1, 2)):
                                    if abs(b - c) > ja2 and shape_ok and np.max(np.abs(m[:, ib, ic])) > 1e-12:
                                        zero_ok = False
                            ctx.check("cg_matrix zero outside |lb-lc|<=J", zero_ok, lambda: desc, mechanism="cg_matrix forced zeros")
                            if ca is None:
                                n_ind = n_indep_hel(ja2, jb2, jc2, pa, pb, pc, p_break)
                                ctx.check("n_ls==independent helicity amplitudes", n_ls == n_ind,
                                          lambda: dict(desc, n_ls=n_ls, n_independent=n_ind), mechanism="n_ls count")
                            # identity: row i equals sqrt((2l+1)/(2J+1)) <jb lb jc -lc|s d><l 0 s d|J d> from the exact reference
                            if shape_ok:
                                from ..oracle.su2 import cg_exact

                                dev = 0.0
                                for i_, (l, s) in enumerate(got1):
                                    s2 = int(round(2 * s))
                                    for ib, b in enumerate(range(-jb2, jb2 + 1, 2)):
                                        for ic, c in enumerate(range(-jc2, jc2 + 1, 2)):
                                            dl = b - c
                                            ref = np.sqrt((2 * l + 1) / (ja2 + 1)) * cg_exact(jb2, b, jc2, -c, s2, dl) * cg_exact(2 * l, 0, s2, dl, ja2, dl)
                                            dev = max(dev, abs(ref - m[i_, ib, ic]))
                                ctx.dev("cg_matrix entries", dev, 1e-9)
                                ctx.check("cg_matrix==exact formula", dev < 1e-9, lambda: dict(desc, dev=dev), mechanism="cg_matrix entries")
                                # the symbolic form of the same map (get_cg_matrix(out_sym=True), used by build_ls2hel_eq): sympy's exact CG
                                # coefficients are slow, so small spins and a rotating subset only
                                if max(ja2, jb2, jc2) <= 3 and (k + pa + 2 * pb + 4 * pc + p_break) % ctx.pick(12, 3) == 0 and ca is None:
                                    try:
                                        import sympy as sym

                                        ms = d1.get_cg_matrix(out_sym=True)
                                        msn = np.array([[[float(sym.N(x)) for x in r_] for r_ in mm_] for mm_ in ms], dtype=float)
                                        devs = float(np.max(np.abs(msn - m))) if msn.shape == m.shape else np.inf
                                        ctx.check("symbolic cg_matrix == numeric cg_matrix", devs < 1e-9, lambda: dict(desc, dev=devs),
                                                  mechanism="symbolic cg_matrix (%s spins)" % ("half-integer" if (jb2 % 2 or jc2 % 2) else "integer"))
                                    except Exception as e:
                                        ctx.violation("symbolic cg_matrix == numeric cg_matrix", ctx.exc_witness(e, **desc), mechanism="symbolic cg_matrix raises")
                            ctx.covered("rank_2J", (ja2, jb2, jc2))
            ctx.covered("object_2J_max", max(ja2, jb2, jc2))
        ctx.sample({"section": "objects", "example": "A(3/2-) -> B(1-) C(1/2+)", "ref_ls": ref_ls(3, 2, 1, -1, -1, 1, False, None),
                    "n_independent_helicity": n_indep_hel(3, 2, 1, -1, -1, 1, False)})


def norm_keep(ls):
    return [(int(l), float(s)) for l, s in ls]
