"""C04 - spinless cascades reproduce the closed-form Legendre x Breit-Wigner amplitude."""
import itertools
import math

import numpy as np

from ..gen import cards
from ..oracle import kin
from ..oracle import lineshape as ls

LEVEL = "exploration"
SHARDS = {"quick": 8, "thorough": 16}
TIMEOUT = {"quick": 500, "thorough": 3000}
THREADS = {"quick": 1, "thorough": 1}
RULE = (
    "per case: spin-0 parent -> three spin-0 finals through any non-empty subset of the three topologies, 1-2 resonances "
    "per slot with J in 0..4 (thorough: every (J1,J2,J3) in {0..4}^3 at least once), random masses (inside the window), widths, "
    "final masses, complex couplings, either daughter order, parity-conserving or p_break vertices; 120 events over the Dalitz "
    "region incl. its boundary and a moving parent; density vs an independent NumPy closed form.  non-trivial = some J>0, and "
    ">=2 chains interfering for multi-chain cards; distinct = (J assignment, topology subset, parity mode, daughter orders)."
)
ASSUMPTIONS = [
    "reference: own boosts and cos(theta), Kallen q, Blatt-Weisskopf from the reverse-Bessel recurrence (d=3), running-width BW with L=J, scipy Legendre",
    "resonance nominal masses inside the kinematic window (the closed formula in the statement does not define the below-threshold continuation)",
    "coupling c_k = product of the chain's total and the two g_ls, read back by name from get_params()",
    "tolerance |df| <= 1e-8*(f + 1e-3*median f)",
]
REQUIRE = {
    "monitors": {"density == closed form": {"quick": 200, "thorough": 1000}, "contract: density finite and >= 0 (AbsPDF.__call__)": 60},
    "min_nontrivial": {"quick": 150, "thorough": 900},
    "cover": {"J": [0, 1, 2, 3, 4], "n_topologies": [1, 2, 3]},
}
LEVEL_TEXT = ("Differential runtime monitor: the density returned by ConfigLoader(card).get_amplitude()(data) for spinless cascades is "
              "compared event by event with a ~60-line independent closed form computed from the four-momenta only; fixes sign, phase and "
              "normalisation conventions on every observed card.")
TECHNIQUE = "differential runtime monitor vs independent closed-form reference"

PAIRS = [((0, 1), 2), ((0, 2), 1), ((1, 2), 0)]  # (pair, spectator)


def build_card(rng, tag, Js_by_slot, parity_mode):
    """Js_by_slot: dict slot index -> list of J.  Returns card dict + chain descriptors."""
    fm = [float(rng.choice(cards.FINAL_MASSES)) if rng.random() < 0.7 else float(rng.uniform(0.1, 1.2)) for _ in range(3)]
    fp = [int(rng.choice([-1, 1])) for _ in range(3)]
    m_top = sum(fm) + float(rng.uniform(0.8, 3.0))
    names = ["F%s%s" % (c, tag) for c in "BCD"]
    top = "TA" + tag
    p_top = fp[0] * fp[1] * fp[2] if parity_mode == "strong" else int(rng.choice([-1, 1]))
    particle = {"$top": {top: {"J": 0, "P": p_top, "mass": m_top}},
                "$finals": {names[i]: {"J": 0, "P": fp[i], "mass": fm[i]} for i in range(3)}}
    decay = {top: []}
    chains = []
    for slot, Js in Js_by_slot.items():
        (a, b), c = PAIRS[slot]
        slot_name = "R%s%s%s" % ("BCD"[a], "BCD"[b], tag)
        lo, hi = fm[a] + fm[b], m_top - fm[c]
        order_r = [a, b] if rng.random() < 0.5 else [b, a]
        top_first = bool(rng.random() < 0.5)
        opts = {"p_break": True} if parity_mode == "weak" else {}
        ent_top = ([slot_name, names[c]] if top_first else [names[c], slot_name]) + ([dict(opts)] if opts else [])
        decay[top].append(ent_top)
        decay[slot_name] = [names[order_r[0]], names[order_r[1]]] + ([dict(opts)] if opts else [])
        cand = []
        for r, J in enumerate(Js):
            nm = "%s_%d" % (slot_name.replace(tag, ""), r) + tag
            m0 = float(rng.uniform(lo + 0.08 * (hi - lo), hi - 0.08 * (hi - lo)))
            g0 = float(rng.uniform(0.03, 0.4))
            P = fp[a] * fp[b] * (-1) ** J if parity_mode == "strong" else int(rng.choice([-1, 1]))
            particle[nm] = {"J": J, "P": P, "mass": m0, "width": g0}
            cand.append(nm)
            chains.append({"res": nm, "J": J, "m0": m0, "g0": g0, "pair": order_r, "spect": c, "slot": slot_name, "top_first": top_first})
        particle[slot_name] = cand
    config = {"decay": decay, "particle": particle, "data": {"dat_order": names}}
    meta = {"n": 3, "top": {"name": top, "mass": m_top, "j2": 0, "p": p_top},
            "finals": [{"name": names[i], "mass": fm[i], "j2": 0, "p": fp[i], "massless": False} for i in range(3)],
            "chains": chains, "parity_mode": parity_mode}
    return {"config": config, "meta": meta}


def reference_density(meta, params, ps):
    """|sum_k c_k (-1)^J qA^J B_J(qA,qA0) qR^J B_J(qR,qR0) BW_k(m) P_J(cos theta_k)|^2 from four-momenta only."""
    from scipy.special import eval_legendre

    M = meta["top"]["mass"]
    fm = [f["mass"] for f in meta["finals"]]
    tot = ps[0] + ps[1] + ps[2]
    rest = [kin.boost_to_rest_of(p, tot) for p in ps]  # parent rest frame
    amp = np.zeros(ps[0].shape[0], dtype=complex)
    for ch in meta["chains"]:
        a, b = ch["pair"]
        c = ch["spect"]
        J = ch["J"]
        pR = rest[a] + rest[b]
        m = kin.mass(pR)
        pa_star = kin.boost_to_rest_of(rest[a], pR)
        nR = pR[:, 1:] / np.linalg.norm(pR[:, 1:], axis=-1, keepdims=True)
        na = pa_star[:, 1:] / np.linalg.norm(pa_star[:, 1:], axis=-1, keepdims=True)
        cos = np.sum(nR * na, axis=-1)
        qA = ls.q_of(M, m, fm[c])
        qA0 = ls.q_of(M, ch["m0"], fm[c])
        qR = ls.q_of(m, fm[a], fm[b])
        qR0 = ls.q_of(ch["m0"], fm[a], fm[b])
        bw = 1.0 / (ch["m0"] ** 2 - m * m - 1j * ch["m0"] * ls.gamma_run(m, ch["m0"], ch["g0"], qR, qR0, J))
        coup = ch["c"]
        amp = amp + coup * (-1) ** J * qA**J * ls.bprime(J, qA, qA0) * qR**J * ls.bprime(J, qR, qR0) * bw * eval_legendre(J, cos)
    return np.abs(amp) ** 2


def couplings(meta, params):
    """c_k = total * g_ls(top decay) * g_ls(resonance decay), polar (r, phase) read back by name"""
    names = list(params)
    for ch in meta["chains"]:
        c = 1.0 + 0j
        found = 0
        for k in names:
            if not k.endswith("r"):
                continue
            base = k[:-1]
            if ch["res"] not in k:
                continue
            # variables of this chain: '<top>-><...>..._total_0', '<top>->..._g_ls_0', '<res>->..._g_ls_0'
            r, phi = params[base + "r"], params[base + "i"]
            c *= r * np.exp(1j * phi)
            found += 1
        if found != 3:
            raise RuntimeError("expected 3 complex factors for chain %s, found %d: %s" % (ch["res"], found, [k for k in names if ch["res"] in k]))
        ch["c"] = c
    return meta


def run(ctx):
    from .. import attach

    attach.density_contract(ctx)
    n_cards = ctx.pick(400, 2600)
    all_triples = list(itertools.product(range(5), repeat=3))
    for i, rng in ctx.cases("cards", n_cards, budget_s=ctx.pick(400, 2500)):
        tag = "_c04s%di%d" % (ctx.seed, i)
        # topology subset: cycle through the 7 non-empty subsets; J assignment: enumerate triples in thorough
        subset = [s for s in range(3) if ((i % 7) + 1) >> s & 1]
        if ctx.tier == "thorough" and i < len(all_triples) * 7:
            trip = all_triples[(i // 7) % len(all_triples)]
        else:
            trip = tuple(int(x) for x in rng.integers(0, 5, 3))
        Js = {}
        for s in subset:
            Js[s] = [trip[s]] + ([int(rng.integers(0, 5))] if rng.random() < 0.3 else [])
        parity_mode = "strong" if rng.random() < 0.5 else "weak"
        card = build_card(rng, tag, Js, parity_mode)
        meta = card["meta"]
        try:
            cfg = cards.load(card)
            amp = cfg.get_amplitude()
            amp.set_params(cards.random_params(amp, (ctx.seed, i)))
            params = {k: float(v) for k, v in amp.get_params().items()}
            couplings(meta, params)
        except Exception as e:
            ctx.violation("density == closed form", ctx.exc_witness(e, config=card["config"]), mechanism="spinless card load raises")
            continue
        nev = 120
        ps = cards.events(card, nev, rng, classes=True)
        if i % 2:
            v = kin.random_velocity(rng, speeds=(0.3, 0.8))
            ps = [np.concatenate([p[: nev // 2], kin.boost(p[nev // 2:], v)]) for p in ps]
        ctx.context = {"config": card["config"], "index": i}
        try:
            f, _ = cards.density(cfg, ps)
        except Exception as e:
            ctx.violation("density == closed form", ctx.exc_witness(e, config=card["config"]), mechanism="spinless density raises")
            continue
        ref = reference_density(meta, params, ps)
        ok_ev = np.isfinite(ref)
        tol = 1e-8 * (np.abs(ref) + 1e-3 * np.median(ref))
        d = np.abs(f - ref)
        worst = float(np.max((d / tol)[ok_ev]))
        k = int(np.argmax(np.where(ok_ev, d / tol, -1)))
        ctx.dev("density vs closed form (|df|/tol)", worst, 1.0)
        ctx.check("density == closed form", worst <= 1.0,
                  lambda: {"config": card["config"], "chains": [{kk: (vv if kk != "c" else [vv.real, vv.imag]) for kk, vv in ch.items()} for ch in meta["chains"]],
                           "param_key": [ctx.seed, i], "event": k, "lib": f[k], "ref": ref[k], "momenta": [p[k] for p in ps], "worst_ratio": worst},
                  mechanism="closed form")
        allJ = [ch["J"] for ch in meta["chains"]]
        ctx.case((tuple(sorted((ch["slot"].replace(tag, ""), ch["J"], tuple(ch["pair"]), ch["top_first"]) for ch in meta["chains"])), parity_mode),
                 nontrivial=max(allJ) > 0)
        for J in allJ:
            ctx.covered("J", J)
        ctx.covered("n_topologies", len(subset))
        ctx.covered("parity_mode", parity_mode)
        ctx.covered("J_triple", tuple(trip[s] if s in subset else None for s in range(3)))
        if i < ctx.nshards:
            ctx.sample({"config": card["config"], "event0": [p[0] for p in ps], "lib_density": f[0], "closed_form": ref[0]}, limit=2)


    # ------------------------------------------------------------ spin scans that RE-USE the particle names within one process
    # (a J = 0..4 scan of one resonance, as a spin-parity hypothesis test does): the k-th model must not see anything of the
    # models built before it under the same names
    n_scan = ctx.pick(8, 120)
    for i, rng in ctx.cases("name_reuse", n_scan, budget_s=ctx.pick(200, 1500)):
        tag = "_c04scan%d_%d" % (ctx.seed, i)
        slot = int(rng.integers(0, 3))
        parity_mode = "strong" if i % 2 else "weak"
        order = [int(x) for x in rng.permutation(5)]
        state = rng.bit_generator.state
        for step, J in enumerate(order):
            # same generator state for every step: same masses / names / options, only the spin differs
            rng.bit_generator.state = state
            card = build_card(rng, tag, {slot: [J]}, parity_mode)
            meta = card["meta"]
            try:
                cfg = cards.load(card)
                amp = cfg.get_amplitude()
                amp.set_params(cards.random_params(amp, (ctx.seed, i)))
                params = {k: float(v) for k, v in amp.get_params().items()}
                couplings(meta, params)
                ps = cards.events(card, 80, rng, classes=True)
                f, _ = cards.density(cfg, ps)
            except Exception as e:
                ctx.violation("density == closed form", ctx.exc_witness(e, config=card["config"], scan=order, step=step), mechanism="name re-use scan raises")
                continue
            ref = reference_density(meta, params, ps)
            tol = 1e-8 * (np.abs(ref) + 1e-3 * np.median(ref))
            worst = float(np.max(np.abs(f - ref) / tol))
            ctx.check("density == closed form", worst <= 1.0, lambda: {"config": card["config"], "scan_order_of_J": order, "step": step, "J": J, "worst_ratio": worst},
                      mechanism="closed form after the same names were used with another spin")
            ctx.case(("scan", i, step, J), nontrivial=step > 0)
            ctx.covered("name_reuse_step", step)
