"""C01 - the decay-rate density is independent of the observer's frame."""
import math

import numpy as np

from ..gen import cards
from ..oracle import kin

LEVEL = "exploration"
SHARDS = {"quick": 12, "thorough": 16}
TIMEOUT = {"quick": 600, "thorough": 3000}
THREADS = {"quick": 1, "thorough": 1}
RULE = (
    "per case: one generated decay card (3- or 4-body, integer and half-integer spins, parities, 1-3 topologies with 1-2 "
    "resonances per slot, per-decay options, several resonance models; identical-particle classes: one pair, two families, three "
    "identical particles; one class with the other registered two-body decay models helicity_full / helicity_parity / gls-bf) x "
    "parameters by name x 40 events from the independent generator (bulk, near-threshold, collinear) x transformations "
    "{rotation, boost(0.1..0.9), rotation*boost*rotation, boost 1e-8, boost 0.99, inversion where the property claims it, "
    "identical-particle exchange of every declared family separately and together, transpositions and cyclic exchanges}.  non-trivial = card has a spinning particle or >=2 chains and median density>0; "
    "distinct = card structure key (spins, parities, trees, models, options)."
)
ASSUMPTIONS = [
    "unpolarised parent (default full spins) only, as the property states",
    "inversion judged only for 3-body cards and for cards with p_break=False at every vertex (helicity_full vertices count as parity violating)",
    "the decay model helicity_full-bf is not generated: it raises InvalidArgumentError inside mixed-model chains (declines, no value to judge)",
    "tolerance |df| <= 3e-6*(f + 1e-2*median f) (3e-5 for gamma>5; observed floor 5e-8 from beta=acos(1-k*eps) in SU2M.get_euler_angle for identity alignment rotations); events whose smallest two-body breakup momentum is < 1e-4 of its parent mass are skipped as ill-conditioned",
    "CPU, eager evaluation",
    "align_ref=center_mass (reference = canonical boost to the rest frame of each final particle) is exercised for massive final particles only: a massless particle has no rest frame",
]
REQUIRE = {
    "monitors": {
        "contract: density finite and >= 0 (AbsPDF.__call__)": 50,
        "f(Rp)==f(p) rotation": 20,
        "f(Bp)==f(p) boost": 20,
        "f(RBRp)==f(p)": 20,
        "f(Pp)==f(p) inversion": 10,
        "f(exchange identical)==f(p)": 3,
        "direct API cal_angle_from_momentum+amp invariant": 10,
    },
    "min_nontrivial": {"quick": 40, "thorough": 400},
    "cover": {"nbody": [3, 4], "half_integer_spin": ["True"], "identical": ["True"], "align_ref": ["default", "center_mass"],
              "identical_kind": ["one pair", "two families", "three identical particles"]},
}
LEVEL_TEXT = ("Metamorphic runtime monitor at the two observation points the property names (ConfigLoader.data.cal_angle -> "
              "get_amplitude()(data); cal_angle_from_momentum + AmplitudeModel.__call__) plus an icontract postcondition on every "
              "density the run computes; held on the generated cards/events/transformations that were observed.")
TECHNIQUE = "metamorphic runtime monitor (Lorentz transforms of the input) + icontract postcondition on AbsPDF.__call__"

COND_Q = float(__import__("os").environ.get("VH_COND_Q", "1e-4"))
MODELS = ("default", "default", "BW", "BWR2", "BWR_normal", "one", "BWR_below")


def make_card(i, rng, tag):
    cls = i % 9
    if cls == 0:
        g = cards.CardGen(rng, tag, nbody=3, res_per_slot=(1, 2), models=MODELS)
    elif cls == 1:
        g = cards.CardGen(rng, tag, nbody=4, n_chains=(1, 3), final_j2=(0, 0, 0, 1, 2), models=MODELS)
    elif cls == 2:
        # identical particles B, C.  sub-classes: 0 = all finals spin 0 (default alignment); 1 = spinning finals with
        # align_ref=center_mass (alignment referred to the parent rest frame; center_mass itself random); 2 = spinning finals with the
        # default alignment rule (known finding: the swapped term uses another helicity basis)
        sub = int(rng.integers(3))
        if sub == 0:
            j2, tj2 = 0, 0
        else:
            j2 = int(rng.choice([0, 1, 2]))
            tj2 = int(rng.choice([0, 1, 2])) if j2 > 0 else int(rng.choice([1, 2]))
        p = int(rng.choice([-1, 1]))
        m = float(rng.choice(cards.FINAL_MASSES))
        third = (tj2, int(rng.choice([-1, 1])), float(rng.choice(cards.FINAL_MASSES)))
        g = cards.CardGen(rng, tag, nbody=3, fixed_finals=[(j2, p, m), (j2, p, m), third], n_chains=(1, 3), models=MODELS)
    elif cls == 3:  # massless spin-1 final allowed, higher resonance spins
        g = cards.CardGen(rng, tag, nbody=3, massless_prob=0.6, final_j2=(0, 1, 2, 2), res_j2_int=(0, 2, 4, 6), res_j2_half=(1, 3, 5), models=MODELS)
    elif cls == 4:  # parity conserving 4-body
        g = cards.CardGen(rng, tag, nbody=4, p_break_prob=0.0, n_chains=(1, 2), final_j2=(0, 0, 1, 2), models=("default",))
    elif cls == 5:  # all spin-1/2 and spin-1 finals
        g = cards.CardGen(rng, tag, nbody=3, final_j2=(1, 1, 2), top_j2=(1, 3, 0, 2, 4), res_per_slot=(1, 2), models=MODELS)
    elif cls == 6:
        # two families of identical particles (pi+ pi+ pi- pi- like): identical_particles [[B, C], [D, E]]; exchanging the momenta
        # of ONE family, of the other, or of both must leave the density unchanged.  Spinning finals only with align_ref=center_mass
        # (the default alignment of symmetrised amplitudes is the recorded finding of class 2)
        sub = int(rng.integers(2))
        ja, jb = (0, 0) if sub == 0 else (int(rng.choice([0, 1, 2])), int(rng.choice([0, 1, 2])))
        pa, pb = int(rng.choice([-1, 1])), int(rng.choice([-1, 1]))
        ma, mb = float(rng.choice(cards.FINAL_MASSES[:4])), float(rng.choice(cards.FINAL_MASSES[:4]))
        g = cards.CardGen(rng, tag, nbody=4, fixed_finals=[(ja, pa, ma), (ja, pa, ma), (jb, pb, mb), (jb, pb, mb)], n_chains=(1, 3), models=("default", "BW"))
    elif cls == 8:
        # the other registered two-body decay models on a share of the vertices (free helicity couplings, parity-related helicity couplings,
        # LS couplings with the barrier factor variants)
        g = cards.CardGen(rng, tag, nbody=3 if (i // 9) % 2 == 0 else 4, n_chains=(1, 3), final_j2=(0, 1, 1, 2) if (i // 9) % 2 == 0 else (0, 0, 1, 2), models=("default", "BW"),
                          decay_models=("helicity_full", "helicity_parity", "gls-bf"), decay_opts_prob=0.0)
    else:
        # three identical particles (B, C, D): transpositions and cyclic exchanges (spin 0, and spin 1/2 or 1 with align_ref=center_mass)
        sub = int(rng.integers(2))
        j2 = 0 if sub == 0 else int(rng.choice([1, 2]))
        p_, m_ = int(rng.choice([-1, 1])), float(rng.choice(cards.FINAL_MASSES[:4]))
        g = cards.CardGen(rng, tag, nbody=3, fixed_finals=[(j2, p_, m_)] * 3, n_chains=(1, 3), top_j2=(0, 1, 2, 3), models=("default", "BW"))
    card = g.make()
    card["meta"]["class"] = cls
    if cls in (6, 7):
        f = card["meta"]["finals"]
        if cls == 6:
            card["config"]["data"]["identical_particles"] = [[f[0]["name"], f[1]["name"]], [f[2]["name"], f[3]["name"]]]
            card["meta"]["exchanges"] = [[1, 0, 2, 3], [0, 1, 3, 2], [1, 0, 3, 2]]
        else:
            card["config"]["data"]["identical_particles"] = [[f[0]["name"], f[1]["name"], f[2]["name"]]]
            card["meta"]["exchanges"] = [[1, 0, 2], [0, 2, 1], [1, 2, 0], [2, 0, 1]]
        card["meta"]["identical"] = True
        card["meta"]["identical_sub"] = sub
        card["meta"]["identical_kind"] = "two families" if cls == 6 else "three identical particles"
        if sub == 1:
            card["config"]["data"]["align_ref"] = "center_mass"
    if cls == 0 and (i // 6) % 3 == 1:
        # a direct three-body vertex A -> B C D interfering with the resonant chains
        top_ = card["meta"]["top"]["name"]
        ents = card["config"]["decay"][top_]
        if not isinstance(ents[0], list):
            ents = [ents]
        card["config"]["decay"][top_] = ents + [[f["name"] for f in card["meta"]["finals"]]]
        card["meta"]["direct_vertex"] = True
    if cls == 2:
        f = card["meta"]["finals"]
        card["config"]["data"]["identical_particles"] = [[f[0]["name"], f[1]["name"]]]
        card["meta"]["identical"] = True
        card["meta"]["identical_sub"] = sub
        if sub == 1:
            card["config"]["data"]["align_ref"] = "center_mass"
    return card


def tolerance(f0, loose=False):
    """|df| <= 3e-6*(f + 1e-2*median f)  (3e-5 for gamma>5).

    Observed floor on the unchanged tree: SU2M.get_euler_angle takes beta=acos(cos beta); when an alignment rotation is
    the identity (very common: the particle is produced the same way in two topologies) cos beta = 1-k*eps gives
    beta ~ sqrt(2k eps) ~ 3e-8 instead of 0, i.e. relative deviations up to ~5e-8 between frames.  Realistic breaks move
    the density by 1e-2..1, so 3e-6 keeps >= 2 orders of margin to the floor and >= 3 to the breaks."""
    med = float(np.median(f0))
    return (3e-5 if loose else 3e-6) * (np.abs(f0) + 1e-2 * med)


def conditioned(card, ps):
    """mask of events whose every two-body breakup (in any chosen tree) has q/M > 1e-4"""
    import ast

    n = ps[0].shape[0]
    good = np.ones(n, dtype=bool)

    def sub(t):
        if isinstance(t, int):
            return ps[t]
        return sub(t[0]) + sub(t[1])

    def walk(t):
        nonlocal good
        if isinstance(t, int):
            return
        a, b = sub(t[0]), sub(t[1])
        M = kin.mass(a + b)
        q = kin.two_body_q(M, kin.mass(a), kin.mass(b))
        good &= q / M > COND_Q
        walk(t[0])
        walk(t[1])

    for tr in card["meta"]["trees"]:
        walk(ast.literal_eval(tr))
    return good


def run(ctx):
    from .. import attach

    mon_contract = attach.density_contract(ctx)
    from tf_pwa.cal_angle import cal_angle_from_momentum

    n_cards = ctx.pick(150, 4000)
    for i, rng in ctx.cases("cards", n_cards, budget_s=ctx.pick(420, 2400)):
        tag = "_c01s%di%d" % (ctx.seed, i)
        try:
            card = make_card(i, rng, tag)
        except RuntimeError:
            ctx.count("card_generation_failed")
            continue
        meta = card["meta"]
        data_opts = {}
        if rng.random() < 0.5:
            data_opts["random_z"] = bool(rng.random() < 0.5)
        if rng.random() < 0.3:
            data_opts["center_mass"] = True
        massless_spin = any(f["mass"] == 0 and f["j2"] > 0 for f in meta["finals"])
        if rng.random() < 0.25 and "align_ref" not in card["config"]["data"] and not massless_spin:
            data_opts["align_ref"] = "center_mass"  # with or without center_mass: the reference is the parent rest frame either way
        ctx.covered("align_ref", str(data_opts.get("align_ref") or card["config"]["data"].get("align_ref") or "default"))
        try:
            cfg = cards.load(card, extra_data=data_opts)
            amp = cfg.get_amplitude()
            amp.set_params(cards.random_params(amp, (ctx.seed, i)))
        except Exception as e:
            ctx.count("card_load_failed")
            ctx.note("load failed: %r %s" % (e, cards.short(card)))
            continue
        nev = 40
        has_massless = any(f["massless"] for f in meta["finals"])
        # massless spinning finals: only bulk events (sqrt(|E^2-p^2|) of a massless particle is rounding noise and the
        # alignment boosts by gamma=E/M; near-rest / collinear massless momenta are ill-conditioned, not judged)
        ps = cards.events(card, nev, rng, classes=not has_massless)
        ctx.context = {"card": cards.short(card), "data_opts": data_opts, "index": i}
        # known-finding class: identical SPINNING finals with the default alignment rule (see known_findings.json)
        kf = " [identical_particles with spinning finals, default align_ref]" if meta.get("identical_sub") == 2 else ""
        if meta.get("direct_vertex"):
            ctx.covered("direct_three_body_vertex", True)
            if any(f["j2"] > 0 for f in meta["finals"]):
                kf = " [direct three-body vertex with a spinning final-state particle]"
        try:
            f0, _ = cards.density(cfg, ps)
        except Exception as e:
            ctx.violation("f(Rp)==f(p) rotation", ctx.exc_witness(e, card=cards.short(card)), mechanism="density raises")
            continue
        good = conditioned(card, ps) & np.isfinite(f0)
        f0_all = f0
        if not np.median(f0) > 1e-20:
            # amplitude vanishes identically (e.g. symmetrisation cancels it): only rounding noise left, nothing to judge
            ctx.count("degenerate_zero_density_cards")
            continue
        nontrivial = (meta["spinning"] or meta["n_chains"] >= 2) and np.median(f0) > 0
        ctx.case(cards.card_digest_key(card) + (tuple(sorted(data_opts.items())),), nontrivial=nontrivial)
        ctx.covered("nbody", meta["n"])
        ctx.covered("half_integer_spin", any(f["j2"] % 2 for f in meta["finals"]))
        ctx.covered("identical", bool(meta.get("identical")))
        ctx.covered("massless_final", has_massless)
        if meta.get("identical"):
            ctx.covered("identical_subclass", ["all finals spin 0", "spinning finals, align_ref=center_mass", "spinning finals, default align (known finding class)"][meta["identical_sub"]])
        ctx.covered("class", meta["class"])
        for r in meta["resonances"]:
            ctx.covered("res_model", r["model"])
            ctx.covered("res_2J", r["j2"])
        desc = lambda: {"card": cards.short(card), "data_opts": data_opts, "config": card["config"], "param_key": [ctx.seed, i]}

        def judge(monitor, ps2, label, loose=False, mech=None, only_conditioned=False):
            f0 = f0_all
            sel = good
            if only_conditioned:
                # (gamma = 7: events within 1e-4 of a threshold are not handed to the library at all - their angles are rounding noise there,
                # and the finiteness contract on every density would judge them)
                if not np.any(good):
                    ctx.count("skipped_ill_conditioned_all")
                    return
                ps2 = [p_[good] for p_ in ps2]
                f0 = f0_all[good]
                sel = np.ones(int(good.sum()), dtype=bool)
            try:
                f1, _ = cards.density(cfg, ps2)
            except Exception as e:
                ctx.violation(monitor, ctx.exc_witness(e, transform=label, **desc()), mechanism=(mech or monitor) + " raises" + kf)
                return
            tol = tolerance(f0, loose)
            d = np.abs(f1 - f0)
            if not np.any(sel):
                ctx.count("skipped_ill_conditioned_all")
                return
            worst = float(np.max(d[sel] / tol[sel]))
            if not kf:
                ctx.dev(monitor + " (|df|/tol)", worst, 1.0)
            k = int(np.argmax(np.where(sel, d / tol, -1)))
            ctx.check(monitor, worst <= 1.0, lambda: dict(desc(), transform=label, event=k, f0=f0[k], f1=f1[k],
                                                          momenta=[(p[good] if only_conditioned else p)[k] for p in ps], worst_ratio=worst),
                      mechanism=("frame invariance" + kf) if (kf and not monitor.startswith("f(exchange")) else (mech or monitor) + kf)

        # rotation
        R = kin.random_rotation(rng)
        judge("f(Rp)==f(p) rotation", [kin.rotate(p, R) for p in ps], {"rotation": R})
        # boost
        v = kin.random_velocity(rng, speeds=(0.1, 0.5, 0.9))
        judge("f(Bp)==f(p) boost", [kin.boost(p, v) for p in ps], {"boost": v})
        # R B R'
        R2 = kin.random_rotation(rng, "quat")
        v2 = kin.random_velocity(rng, speeds=(0.3, 0.7))
        judge("f(RBRp)==f(p)", [kin.rotate(kin.boost(kin.rotate(p, R), v2), R2) for p in ps], {"R1": R, "boost": v2, "R2": R2})
        # tiny and large boosts (threshold of the random_z switch; gamma = 7)
        vt = kin.random_velocity(rng, speeds=(1e-8, 1e-6, 1e-4))
        judge("f(Bp)==f(p) boost", [kin.boost(p, vt) for p in ps], {"boost": vt}, mech="f(Bp)==f(p) tiny boost")
        if i % 3 == 0 and not has_massless:
            vl = kin.random_velocity(rng, speeds=(0.99,))
            judge("f(Bp)==f(p) boost", [kin.boost(p, vl) for p in ps], {"boost": vl}, loose=True, mech="f(Bp)==f(p) boost 0.99", only_conditioned=True)
        # inversion
        all_strong = all(not o.get("p_break") and o.get("model") not in ("helicity_full", "helicity_full-bf") for o in meta["dec_opts"].values())
        for o in meta["dec_opts"].values():
            ctx.covered("decay_model", o.get("model", "default"))
        if meta["n"] == 3 or all_strong:
            judge("f(Pp)==f(p) inversion", [kin.parity(p) for p in ps], {"parity": True, "all_vertices_parity_conserving": all_strong})
            ctx.covered("inversion_class", "3body" if meta["n"] == 3 else "4body_strong")
        # identical exchange
        if meta.get("identical"):
            for perm in meta.get("exchanges", [[1, 0] + list(range(2, meta["n"]))]):
                cyc = meta.get("identical_kind") == "three identical particles" and sum(1 for a_, b_ in enumerate(perm) if a_ != b_) == 3
                judge("f(exchange identical)==f(p)", [ps[j_] for j_ in perm], {"momenta_taken_from": perm},
                      mech="f(exchange identical)==f(p)" + (" [%s%s]" % (meta["identical_kind"], ", cyclic exchange" if cyc else "") if meta.get("identical_kind") else ""))
            ctx.covered("identical_kind", meta.get("identical_kind", "one pair"))
        # second observation point: the direct API with its own defaults
        if i % 4 == 0 and not meta.get("identical"):
            try:
                dg = cfg.get_decay()
                fin = {p_: None for p_ in dg.outs}
                order = [f["name"] for f in meta["finals"]]
                byname = {str(p_): p_ for p_ in dg.outs}

                def direct(psx):
                    pd = {byname[nm]: np.ascontiguousarray(px) for nm, px in zip(order, psx)}
                    return np.asarray(amp(cal_angle_from_momentum(pd, dg)))

                g0 = direct(ps)
                g1 = direct([kin.rotate(kin.boost(p, v), R) for p in ps])
                tol = tolerance(g0)
                worst = float(np.max((np.abs(g1 - g0) / tol)[good])) if np.any(good) else 0.0
                ctx.check("direct API cal_angle_from_momentum+amp invariant", worst <= 1.0,
                          lambda: dict(desc(), worst_ratio=worst, boost=v, rotation=R), mechanism="direct API invariance" + kf)
            except Exception as e:
                ctx.violation("direct API cal_angle_from_momentum+amp invariant", ctx.exc_witness(e, **desc()), mechanism="direct API raises")
        if i < 2 * ctx.nshards:
            ctx.sample({"card": cards.short(card), "data_opts": data_opts, "event0": [p[0] for p in ps], "f0_event0": f0[0],
                        "transforms": "R, B(v), R.B.R', B(tiny), B(0.99), P, exchange"}, limit=3)
