"""C08 - a returned fit result and the model state describe the same point."""
import contextlib
import copy
import gc
import io
import json
import os

import numpy as np

from ..gen import cards, lik

LEVEL = "exploration"
SHARDS = {"quick": 14, "thorough": 16}
TIMEOUT = {"quick": 900, "thorough": 3400}
THREADS = {"quick": 1, "thorough": 1}
RULE = (
    "per case: one generated 3-body card with a constraint set (fixed parameters, var_equal tie, two-sided mass range, one-sided "
    "var_range, Gaussian constraint, floating mass/width) x toy data drawn from the model itself x minimiser name (quick: BFGS, CG, "
    "L-BFGS-B, Newton-CG, trust-ncg, iminuit, trust-exact rotating; thorough: all 11 names incl. the Hessian-vector-product variants) "
    "x start (near / far) x history (first fit, early stop with maxiter 1 or 3, repeated fit in the same session): every fit-return "
    "event is logged with snapshots and judged by the offline checker: live values == result values (also through the public "
    "accessor vm.get), min_nll == NLL(result), min_nll <= NLL(start), fixed unchanged, tied equal, bounded inside, no bound left "
    "installed, save_as / save_params -> fresh model -> set_params reproduces parameters and NLL.  non-trivial = NLL decreased by "
    "> 1 and >= 2 constraint kinds active; distinct = (minimiser, card key, history step)."
)
RULE += '  Also: the repeated fit with a scaled objective (grad_scale 4 / 0.25); constraints on the phase of a polar coupling (fixed phase with the radius negative at the minimum, phase bounded outside [-pi, pi)).'
ASSUMPTIONS = [
    "minimiser name 'root' needs PyROOT (absent) and fit_multinest is a stub: not driven",
    "a named minimiser that raises after minimising is a refuting event (the property quantifies over every offered name)",
    "tolerances: values 1e-10, NLL 1e-6 relative (optimisers report the value of their last accepted point), bounds +-1e-9",
]
REQUIRE = {
    "monitors": {"fit returns a result": 10, "live state == result values": 10, "min_nll == NLL(result)": 10, "min_nll <= NLL(start)": 10,
                 "fixed parameters unchanged": 10, "tied parameters equal": 3, "bounded parameters inside bounds": 5, "no bound left installed": 10,
                 "save -> fresh model -> load reproduces": 6},
    "cover": {"minimiser": {"quick": ["BFGS", "CG", "L-BFGS-B", "Newton-CG", "iminuit"],
                            "thorough": ["BFGS", "CG", "L-BFGS-B", "Newton-CG", "trust-krylov", "trust-ncg", "trust-exact", "iminuit"]}},
    "min_nontrivial": {"quick": 8, "thorough": 80},
}
LEVEL_TEXT = ("History monitor: every fit-return event of ConfigLoader.fit is logged with state snapshots and judged offline against the "
              "result object (state/result agreement, reported minimum, constraints, leaked bounds, file round trips), across the minimiser "
              "names the library offers, constraint sets, starts, early stops and repeated fits.")
TECHNIQUE = "history log of fit-return events + offline consistency checker (state vs result vs files)"

QUICK_METHODS = ["BFGS", "CG", "L-BFGS-B", "Newton-CG", "iminuit", "trust-ncg", "trust-exact", "Nelder-Mead"]
ALL_METHODS = ["BFGS", "CG", "L-BFGS-B", "Newton-CG", "trust-krylov", "trust-ncg", "trust-exact", "iminuit", "Newton-CG-p", "trust-krylov-p", "trust-ncg-p", "Nelder-Mead"]


def quiet():
    return contextlib.redirect_stdout(io.StringIO())


def make_card(rng, tag):
    card = cards.CardGen(rng, tag, nbody=3, n_chains=(3, 3) if tag.endswith(('0', '3', '6', '9')) else (2, 2), final_j2=(0, 0), res_j2_int=(0, 2), top_j2=(0,), res_per_slot=(1, 1), models=("default",),
                         decay_opts_prob=0.0).make()
    cfg = card["config"]
    res = card["meta"]["resonances"]
    fm = [f["mass"] for f in card["meta"]["finals"]]
    M = card["meta"]["top"]["mass"]
    kinds = set()
    inside = []
    for r in res:
        lo = sum(fm[j] for j in r["slot"])
        hi = M - (sum(fm) - lo)
        if lo + 0.3 < r["m0"] < hi - 0.1:
            inside.append(r)
    if inside:
        r0 = inside[0]
        pc = cfg["particle"][r0["name"]]
        pc["float"] = "mg" if rng.random() < 0.5 else "m"
        pc["m_min"], pc["m_max"] = r0["m0"] - 0.05, r0["m0"] + 0.08
        kinds.add("two-sided bound")
        if pc["float"] == "mg":
            pc["g_min"], pc["g_max"] = 0.2 * r0["g0"], 3.0 * r0["g0"]
        if len(inside) > 1 and rng.random() < 0.6:
            r1 = inside[1]
            pc1 = cfg["particle"][r1["name"]]
            pc1["float"] = "m"
            pc1["gauss_constr"] = {"m": 0.02}
            kinds.add("gaussian")
    card["meta"]["constraint_kinds"] = kinds
    return card


def run(ctx):
    import tensorflow as tf

    methods = QUICK_METHODS if ctx.tier == "quick" else ALL_METHODS
    n_cases = ctx.pick(28, 160)
    for i, rng in ctx.cases("fits", n_cases, budget_s=ctx.pick(700, 3000)):
        method = methods[i % len(methods)]
        tag = "_c08s%di%d" % (ctx.seed, i)
        try:
            card = make_card(rng, tag)
            with quiet():
                probe = cards.load(card)
                names = sorted(probe.get_amplitude().get_params())
                free0 = list(probe.get_amplitude().vm.trainable_vars)
            kinds = set(card["meta"]["constraint_kinds"])
            active_bound = None
            constr = card["config"].setdefault("constrains", {})
            gls_r = [k for k in free0 if k.endswith("r") and "g_ls" in k]
            tot_r = [k for k in free0 if k.endswith("total_0r")]
            if tot_r and i % 2 == 0:
                constr["var_range"] = {tot_r[0]: [0.05, None]}
                kinds.add("one-sided bound")
            if len(tot_r) >= 2 and i % 3 == 0:
                constr["var_equal"] = [[tot_r[-2], tot_r[-1]]]
                kinds.add("tie")
                if i % 6 == 3:
                    # a range declared on the SECOND name of the tie (the shared variable must respect it); the lower edge is moved
                    # above the generating value further down, so that the bound is active at the minimum
                    constr["var_range"] = {tot_r[-1]: [0.05, None]}
                    kinds.add("bound on a tied (non-head) name")
                    active_bound = (tot_r[-1], tot_r[-2])
                elif i % 6 == 0:
                    constr["var_range"] = {tot_r[-2]: [0.05, None]}
                    kinds.add("bound on a tied (head) name")
                    active_bound = (tot_r[-2], tot_r[-2])
            elif len(gls_r) >= 2 and i % 3 == 0:
                constr["var_equal"] = [[gls_r[0], gls_r[1]]]
                kinds.add("tie")
            tot_i = [k[:-1] + "i" for k in tot_r if k[:-1] + "i" in free0]
            neg_heads = []
            if len(tot_i) >= 2 and i % 3 == 1:
                # phase-only tie of two polar couplings; the radius of the head starts (and usually ends) negative
                constr["var_equal"] = [[tot_i[-2], tot_i[-1]]]
                kinds.add("tie")
                kinds.add("phase-only tie")
                neg_heads = [tot_i[-2][:-1] + "r"]
                if "var_range" in constr and neg_heads[0] in constr["var_range"]:
                    del constr["var_range"]
                    kinds.discard("one-sided bound")
            elif "var_equal" in constr and constr["var_equal"][0][0] in tot_r and i % 2 == 0:
                neg_heads = list(constr["var_equal"][0])  # tied radii start negative
            if gls_r and i % 4 == 1:
                constr["fix_var"] = {gls_r[-1]: 0.8}
            kinds.add("fixed")
            phase_fixed = phase_bounded = None
            del probe
            with quiet():
                cfg = cards.load(card)
                amp = cfg.get_amplitude()
            truth = cards.random_params(amp, (ctx.seed, i))
            truth = {k: v for k, v in truth.items()}
            for k in neg_heads:
                if k in truth:
                    truth[k] = -abs(truth[k]) - 0.3
            if phase_bounded is not None:
                truth[phase_bounded] = 4.6
            amp.set_params(truth)
            truth_all = {k: float(v) for k, v in amp.get_params().items()}
            if active_bound is not None and active_bound[0] in cfg.bound_dic:
                # lower edge 0.3 above the generating value of the shared radius: the fit runs into the bound
                cfg.bound_dic[active_bound[0]] = (abs(truth_all[active_bound[1]]) + 0.3, None)
            # toy data from the model
            ps = cards.events(card, 5000, rng, classes=False)
            with quiet():
                big = cfg.data.cal_angle([np.ascontiguousarray(p) for p in ps])
                dens = np.asarray(amp(big))
            keep = np.where(rng.random(5000) * dens.max() < dens)[0][:300]
            if len(keep) < 100:
                ctx.count("too_few_toy_events")
                continue
            mom_d = [np.ascontiguousarray(p[keep]) for p in ps]
            mom_mc = [np.ascontiguousarray(p) for p in cards.events(card, 1200, rng, classes=False)]
            with quiet():
                data = cfg.data.cal_angle(mom_d)
                phsp = cfg.data.cal_angle(mom_mc)
        except Exception as e:
            ctx.count("case_setup_failed")
            ctx.note("setup failed %r" % (e,))
            continue
        vm = amp.vm
        ctx.context = {"method": method, "card": cards.short(card), "index": i}
        desc = lambda: {"method": method, "config": card["config"], "constraints": sorted(kinds), "param_key": [ctx.seed, i]}
        history = []

        def one_fit(step, maxiter=None, start="near", grad_scale=None):
            # start point: perturb the free parameters
            free = list(vm.trainable_vars)
            pstart = {}
            for k in free:
                v = float(vm.variables[k].numpy())
                if k.endswith("_mass") or k.endswith("_width"):
                    pstart[k] = v * (1 + (0.002 if start == "near" else 0.01) * float(rng.normal()))
                    if k in cfg.bound_dic:
                        lo, hi = cfg.bound_dic[k]
                        if lo is not None:
                            pstart[k] = max(pstart[k], lo + 1e-3)
                        if hi is not None:
                            pstart[k] = min(pstart[k], hi - 1e-3)
                else:
                    pstart[k] = v + (0.05 if start == "near" else 0.6) * float(rng.normal())
                    if k in cfg.bound_dic and cfg.bound_dic[k][0] is not None:
                        pstart[k] = max(pstart[k], cfg.bound_dic[k][0] + 0.05)
                    # a bound declared on another name of the same tie applies to the shared variable
                    for g_ in vm.same_list:
                        if k in g_:
                            for k2 in g_:
                                if k2 in cfg.bound_dic and cfg.bound_dic[k2][0] is not None:
                                    pstart[k] = max(pstart[k], cfg.bound_dic[k2][0] + 0.05)
            amp.set_params(pstart)
            before = {k: float(v) for k, v in amp.get_params().items()}
            fixed_names = [k for k in before if k not in vm.trainable_vars and not any(k in g for g in vm.same_list)]
            with quiet():
                fcn0 = cfg.get_fcn([[data], [phsp], [None], None], batch=65000)
                nll_start = float(fcn0({}))
            ev = {"step": step, "method": method, "maxiter": maxiter, "start": start, "nll_start": nll_start, "grad_scale": grad_scale}
            fit_opts = {} if grad_scale is None else {"grad_scale": grad_scale}
            try:
                with quiet():
                    r = cfg.fit(data=[data], phsp=[phsp], bg=[None], method=method, maxiter=maxiter, batch=65000, **fit_opts)
            except Exception as e:
                ctx.violation("fit returns a result", ctx.exc_witness(e, step=step, maxiter=maxiter, **desc()), mechanism="fit raises: method=%s" % method)
                # leave a clean state for the next step
                vm.remove_bound()
                return None
            ctx.check("fit returns a result", True)
            live = {k: float(v) for k, v in amp.get_params().items()}
            res = {k: float(v) for k, v in r.params.items()}
            ev.update({"min_nll": r.min_nll, "success": bool(r.success)})
            history.append(ev)
            wit = lambda **kw: dict(desc(), event=ev, history=history[-3:], **kw)
            # (1) live == result (and through the public accessor)
            bad = {k: (res[k], live.get(k)) for k in res if abs(res[k] - live.get(k, np.nan)) > 1e-10 * (1 + abs(res[k]))}
            ctx.check("live state == result values", not bad, lambda: wit(differs=dict(list(bad.items())[:4])), mechanism="live state != result: method=%s" % method)
            bad_get = {}
            for k in res:
                try:
                    gv = float(vm.get(k))
                except Exception:
                    continue
                if abs(gv - res[k]) > 1e-10 * (1 + abs(res[k])):
                    bad_get[k] = (res[k], gv)
            ctx.check("no bound left installed", not vm.bnd_dic and not bad_get, lambda: wit(installed_bounds=list(vm.bnd_dic), vm_get_differs=dict(list(bad_get.items())[:4])),
                      mechanism="bounds left installed after fit: method=%s" % method)
            # (2) reported minimum
            with quiet():
                nll_res = float(cfg.get_fcn([[data], [phsp], [None], None], batch=65000)(r.params))
            amp.set_params(live)
            ctx.check("min_nll == NLL(result)", abs(r.min_nll - nll_res) <= 1e-6 * (1 + abs(nll_res)), lambda: wit(min_nll=r.min_nll, nll_at_result=nll_res),
                      mechanism="min_nll != NLL(result): method=%s" % method)
            # (3) not above the start
            ctx.check("min_nll <= NLL(start)", r.min_nll <= nll_start + 1e-7 * (1 + abs(nll_start)), lambda: wit(min_nll=r.min_nll, nll_start=nll_start),
                      mechanism="min_nll above start: method=%s" % method)
            if phase_fixed is not None and __import__("os").environ.get("VH_DEBUG"):
                print("DEBUG phase_fixed", phase_fixed, "before", before.get(phase_fixed), "live", live.get(phase_fixed), "r before", before.get(phase_fixed[:-1] + "r"), "r live", live.get(phase_fixed[:-1] + "r"),
                      "in fixed_names", phase_fixed in fixed_names, file=__import__("sys").stderr)
            # (4) fixed unchanged
            moved = {k: (before[k], live[k]) for k in fixed_names if abs(before[k] - live[k]) > 1e-12 * (1 + abs(before[k]))}
            ctx.check("fixed parameters unchanged", not moved, lambda: wit(moved=dict(list(moved.items())[:4])), mechanism="fixed parameter moved: method=%s" % method)
            # (5) ties
            if vm.same_list:
                bad_t = [g for g in vm.same_list if len({round(live[k], 14) for k in g if k in live}) > 1]
                ctx.check("tied parameters equal", not bad_t, lambda: wit(groups=bad_t), mechanism="tied parameters differ: method=%s" % method)
            # (6) bounds
            outside = {}
            for k, (lo, hi) in cfg.bound_dic.items():
                if k in live and ((lo is not None and live[k] < lo - 1e-9) or (hi is not None and live[k] > hi + 1e-9)):
                    outside[k] = (live[k], lo, hi)
            if cfg.bound_dic:
                ctx.check("bounded parameters inside bounds", not outside, lambda: wit(outside=outside), mechanism="bounded parameter outside: method=%s" % method)
            ctx.case((method, cards.card_digest_key(card), step), nontrivial=(nll_start - r.min_nll) > 1.0 and len(kinds) >= 2)
            ctx.covered("minimiser", method)
            for kk in kinds:
                ctx.covered("constraint", kk)
            return r

        # the simplex method needs thousands of evaluations to converge: it is always stopped early (its returned point is the best
        # vertex, not the last evaluated one, which is what makes it worth having here)
        # (a fit that runs into an active one-sided bound creeps along the transformed coordinate: capped as well)
        full = 60 if method == "Nelder-Mead" else (150 if active_bound is not None else None)
        r1 = one_fit("first", maxiter=full, start="far" if i % 2 else "near")
        r2 = one_fit("early stop", maxiter=int(rng.choice([1, 3])), start="far")
        # the repeated fit with the documented scaling of the objective handed to the minimiser (grad_scale): the reported minimum is the NLL itself
        # between the fits of one session the range of a bounded mass is narrowed so that the previous minimum lies outside it: the next
        # fit has to honour the range that is configured now
        if r1 is not None and (i // len(methods)) % 2 == 1:
            for k_b, (lo_b, hi_b) in list(cfg.bound_dic.items()):
                if k_b.endswith("_mass") and lo_b is not None and hi_b is not None and k_b in r1.params:
                    v_b = float(r1.params[k_b])
                    mid_b = 0.5 * (lo_b + hi_b)
                    cfg.bound_dic[k_b] = (lo_b, v_b - 0.25 * (v_b - lo_b)) if v_b - lo_b > hi_b - v_b else (v_b + 0.25 * (hi_b - v_b), hi_b)
                    kinds.add("range narrowed between two fits of one session")
                    ctx.covered("constraint", "range narrowed between two fits of one session")
                    break
        gs_ = [None, 4.0, 0.25][(i // len(methods) + i) % 3]
        ctx.covered("grad_scale", gs_)
        r3 = one_fit("repeated", maxiter=full, start="near", grad_scale=gs_)
        last = r3 or r1
        # (8) file round trips into a freshly built model
        if last is not None:
            try:
                wd = os.getcwd()
                f1, f2 = os.path.join(wd, "res_%d.json" % i), os.path.join(wd, "par_%d.json" % i)
                last.save_as(f1)
                cfg.save_params(f2)
                live = {k: float(v) for k, v in amp.get_params().items()}
                with quiet():
                    nll_live = float(cfg.get_fcn([[data], [phsp], [None], None], batch=65000)({}))
                for fn, label in ((f1, "FitResult.save_as"), (f2, "ConfigLoader.save_params")):
                    with quiet():
                        fresh = cards.load(card)  # same configuration, fresh VarsManager
                        fresh.set_params(fn)
                        got = {k: float(v) for k, v in fresh.get_params().items()}
                        d2, m2 = fresh.data.cal_angle(mom_d), fresh.data.cal_angle(mom_mc)
                        nll2 = float(fresh.get_fcn([[d2], [m2], [None], None], batch=65000)({}))
                    neglect = set(getattr(fresh, "_neglect_when_set_params", []))
                    bad = {k: (live[k], got.get(k)) for k in live if k not in neglect and abs(live[k] - got.get(k, np.nan)) > 1e-12 * (1 + abs(live[k]))}
                    ctx.check("save -> fresh model -> load reproduces", not bad and abs(nll2 - nll_live) <= 1e-9 * (1 + abs(nll_live)),
                              lambda: dict(desc(), file=label, differs=dict(list(bad.items())[:4]), nll_live=nll_live, nll_fresh=nll2), mechanism="file round trip: " + label)
            except Exception as e:
                ctx.violation("save -> fresh model -> load reproduces", ctx.exc_witness(e, **desc()), mechanism="file round trip raises")
        if i < ctx.nshards:
            ctx.sample({"method": method, "constraints": sorted(kinds), "history": history, "card": cards.short(card)}, limit=3)
        gc.collect()
    phase_constraints(ctx)


def phase_constraints(ctx):
    """Constraints on the PHASE of a polar coupling through a fit: (a) the phase is fixed and the radius is negative at the minimum
    (data generated with the opposite phase); (b) the phase is bounded to a range outside [-pi, pi).  Methods whose branch of fit_scipy
    standardises the complex couplings at the end."""
    n = ctx.pick(6, 48)
    for i, rng in ctx.cases("phase_constraints", n, budget_s=ctx.pick(400, 1800)):
        method = ["BFGS", "L-BFGS-B", "CG"][i % 3]
        scenario = ["fixed phase, radius negative at the minimum", "bounded phase outside [-pi, pi)"][(i // 3) % 2]
        tag = "_c08Ps%di%d" % (ctx.seed, i)
        try:
            card = cards.CardGen(rng, tag, nbody=3, n_chains=(3, 3), final_j2=(0, 0), res_j2_int=(0, 2), top_j2=(0,), res_per_slot=(1, 1), models=("default",), decay_opts_prob=0.0).make()
            with quiet():
                probe = cards.load(card)
                free0 = list(probe.get_amplitude().vm.trainable_vars)
            tot_r = [k for k in free0 if k.endswith("total_0r") and k[:-1] + "i" in free0]
            if not tot_r:
                continue
            rname, pname = tot_r[0], tot_r[0][:-1] + "i"
            constr = card["config"].setdefault("constrains", {})
            if scenario.startswith("fixed"):
                constr["fix_var"] = {pname: 0.5}
            else:
                constr["var_range"] = {pname: [3.5, 6.3]}
            with quiet():
                cfg = cards.load(card)
                amp = cfg.get_amplitude()
            truth = cards.random_params(amp, (ctx.seed, 800 + i))
            if scenario.startswith("fixed"):
                truth[rname], truth[pname] = -1.4, 0.5
            else:
                truth[rname], truth[pname] = 1.2, 4.6
            amp.set_params(truth)
            ps = cards.events(card, 5000, rng, classes=False)
            with quiet():
                big = cfg.data.cal_angle([np.ascontiguousarray(p) for p in ps])
                dens = np.asarray(amp(big))
            keep = np.where(rng.random(5000) * dens.max() < dens)[0][:300]
            if len(keep) < 100:
                ctx.count("too_few_toy_events")
                continue
            with quiet():
                data = cfg.data.cal_angle([np.ascontiguousarray(p[keep]) for p in ps])
                phsp = cfg.data.cal_angle([np.ascontiguousarray(p) for p in cards.events(card, 1200, rng, classes=False)])
            start = dict(truth)
            start[rname] = truth[rname] * 0.8
            amp.set_params(start)
            before = {k: float(v) for k, v in amp.get_params().items()}
            with quiet():
                r = cfg.fit(data=[data], phsp=[phsp], bg=[None], method=method, batch=65000)
            live = {k: float(v) for k, v in amp.get_params().items()}
        except Exception as e:
            ctx.violation("fit returns a result", ctx.exc_witness(e, method=method, scenario=scenario), mechanism="fit raises: method=%s (%s)" % (method, scenario))
            continue
        wit = lambda: {"method": method, "scenario": scenario, "coupling": rname[:-1], "radius_before": before[rname], "phase_before": before[pname], "radius_after": live[rname],
                       "phase_after": live[pname], "config": card["config"]}
        if scenario.startswith("fixed"):
            ctx.check("fixed parameters unchanged", abs(live[pname] - before[pname]) <= 1e-12, wit, mechanism="fixed parameter moved: method=%s [fixed phase of a polar coupling whose radius is negative at the minimum]" % method)
        else:
            ctx.check("bounded parameters inside bounds", 3.5 - 1e-9 <= live[pname] <= 6.3 + 1e-9, wit, mechanism="bounded parameter outside: method=%s [phase of a polar coupling bounded outside [-pi, pi)]" % method)
        ctx.case(("phase", method, scenario, i), nontrivial=True)
        ctx.covered("constraint", scenario)
