"""C10 - phase-space events are physical, exactly counted and Lorentz-invariant flat."""
import math

import numpy as np

from ..oracle import kin

LEVEL = "exploration"
SHARDS = {"quick": 12, "thorough": 16}
TIMEOUT = {"quick": 500, "thorough": 3000}
THREADS = {"quick": 2, "thorough": 2}
RULE = (
    "per case: one mass set (parent, n=2..6 daughters; Q from 1e-3*M to M; massless and near-threshold daughters) x requested "
    "sizes N in {1,2,10,1000,...}: icontract postconditions on PhaseSpaceGenerator.generate (exact count, mass shell on m^2, "
    "momentum sum) and get_weight (0<=w<=1) evaluated on every call the run makes (also through ChainGenerator, gen_mc, "
    "ConfigLoader.generate_phsp_p); each mass set also after cal_max_weight(); distribution monitors at fixed false-alarm "
    "probability: Dalitz-cell chi2 (n=3), invariant-mass spectra of the generator's own sequential sub-systems and of another "
    "subset vs the exact n-body phase-space density (recursive quadrature), isotropy, weighted vs unweighted mode; nested "
    "ChainGenerator structures of depth 1-3.  non-trivial = n>=3 and N>=10; distinct = (mass set, N, mode)."
)
RULE += '  Also: calibration history (same masses in another order calibrated second, bound compared with a fresh interpreter); cascades and generate_phsp_p after the optional calibration.'
ASSUMPTIONS = [
    "mass shell tested on m^2 (|E^2-p^2-m^2| <= 1e-12 M^2), momentum sum to 1e-12 M",
    "statistical monitors: per-test alpha = 1e-8/(number of tests in the shard); chi2 on bins with expectation >= 20",
    "reference spectra: rho_A(M) = 2M V_a(M;A) V_{n-a+1}(M0; M, rest) with LIPS volumes by Gauss-Legendre quadrature (vh/oracle/kin.py)",
]
REQUIRE = {
    "monitors": {"contract: generate returns exactly N physical events": 100, "contract: 0 <= acceptance weight <= 1": 100,
                 "sub-system mass spectrum == LIPS density": 10, "Dalitz plot flat": 3, "isotropy": 10, "weighted mode == unweighted mode": 5,
                 "ChainGenerator nested kinematics": 10, "gen_mc / generate_phsp_p": 3, "calibration independent of history": 3},
    "cover": {"n_body": [2, 3, 4, 5, 6]},
    "min_nontrivial": 40,
}
LEVEL_TEXT = ("icontract postconditions on the real generator methods (count, mass shell, momentum sum, acceptance weight <= 1) observed on "
              "every call of a workload spanning n=2..6, extreme Q-values, tiny and large N and nested cascades, plus goodness-of-fit monitors "
              "of the produced samples against the exact LIPS densities at a fixed, negligible false-alarm probability.")
TECHNIQUE = "runtime contracts (icontract) on the generator + statistical goodness-of-fit monitors vs exact phase-space densities"


class CaseTimeout(BaseException):
    pass


class time_limit:
    """wall-clock guard around one case (the generator's accept loop is a Python loop); firing is inconclusive, not a violation"""

    def __init__(self, seconds):
        self.seconds = seconds

    def _handler(self, signum, frame):
        raise CaseTimeout()

    def __enter__(self):
        import signal

        self.old = signal.signal(signal.SIGALRM, self._handler)
        signal.setitimer(signal.ITIMER_REAL, self.seconds)

    def __exit__(self, *a):
        import signal

        signal.setitimer(signal.ITIMER_REAL, 0)
        signal.signal(signal.SIGALRM, self.old)
        return False


class Stat:
    """collect p-values; judged at the end with a Bonferroni bound"""

    def __init__(self):
        self.tests = []

    def add(self, monitor, mech, pval, witness):
        self.tests.append((monitor, mech, float(pval), witness))


def chi2_p(obs, exp, var=None, min_exp=20.0):
    from scipy.stats import chi2

    obs = np.asarray(obs, dtype=float)
    exp = np.asarray(exp, dtype=float)
    var = exp if var is None else np.asarray(var, dtype=float)
    sel = exp >= min_exp
    if sel.sum() < 3:
        return None, None, 0
    # lump the rest into one bin
    o = np.concatenate([obs[sel], [obs[~sel].sum()]])
    e = np.concatenate([exp[sel], [exp[~sel].sum()]])
    v = np.concatenate([var[sel], [var[~sel].sum()]])
    if e[-1] < min_exp:
        o, e, v = o[:-1], e[:-1], v[:-1]
    x2 = float(np.sum((o - e) ** 2 / v))
    ndf = len(o) - 1
    return float(chi2.sf(x2, ndf)), x2, ndf


def spectrum_test(M, rho, lo, hi, weights=None, nbins=40):
    edges = np.linspace(lo, hi, nbins + 1)
    sub = np.linspace(0, 1, 9)[None, :] * (edges[1:] - edges[:-1])[:, None] + edges[:-1, None]
    dens = rho(np.clip(sub, lo + 1e-12, hi - 1e-12))
    integ = np.trapezoid(dens, sub, axis=1)
    p = integ / integ.sum()
    if weights is None:
        obs, _ = np.histogram(M, bins=edges)
        exp = p * len(M)
        return chi2_p(obs, exp)
    obs, _ = np.histogram(M, bins=edges, weights=weights)
    var, _ = np.histogram(M, bins=edges, weights=weights**2)
    exp = p * np.sum(weights)
    # Kish effective statistics per bin: the Gaussian approximation of the weighted chi2 needs many effective events
    with np.errstate(divide="ignore", invalid="ignore"):
        kish = np.where(var > 0, obs**2 / var, 0.0)
    sel = kish >= 200
    if sel.sum() < 3:
        return None, None, 0
    from scipy.stats import chi2

    x2 = float(np.sum((obs[sel] - exp[sel]) ** 2 / var[sel]))
    return float(chi2.sf(x2, int(sel.sum()) - 1)), x2, int(sel.sum()) - 1


def dalitz_limits(s12, m0, m1, m2, m3):
    m12 = np.sqrt(s12)
    e2 = (s12 - m1 * m1 + m2 * m2) / (2 * m12)
    e3 = (m0 * m0 - s12 - m3 * m3) / (2 * m12)
    p2 = np.sqrt(np.maximum(e2 * e2 - m2 * m2, 0))
    p3 = np.sqrt(np.maximum(e3 * e3 - m3 * m3, 0))
    return (e2 + e3) ** 2 - (p2 + p3) ** 2, (e2 + e3) ** 2 - (p2 - p3) ** 2


def run(ctx):
    import icontract
    import tensorflow as tf

    from tf_pwa import phasespace as psm
    from tf_pwa.applications import gen_mc

    from ..attach import PostBroken

    tf.random.set_seed(ctx.seed * 1000 + ctx.shard)
    np.random.seed(ctx.seed * 1000 + ctx.shard)
    stat = Stat()
    state = {"expect": None}

    # ---------------- contracts on the real methods (record and return True)
    def physical_and_counted(self, n_iter, result, force=True, flatten=True, importances=True):
        if not flatten:
            weight, pi = result
        else:
            pi = result
        arrs = [np.asarray(p) for p in pi]
        M = float(self.m0)
        ok_n = all(a.shape == (n_iter, 4) for a in arrs) and len(arrs) == self.m_nt
        if not force and flatten and self.m_nt > 2:
            ok_n = len(arrs) == self.m_nt and all(a.shape[0] <= n_iter and a.shape == arrs[0].shape for a in arrs)
        masses = [float(x) for x in self.m_mass]
        ok_shell = True
        dev_shell = 0.0
        for a, m in zip(arrs, masses):
            if a.shape[0]:
                dv = float(np.max(np.abs(kin.mass2(a) - m * m))) / M**2
                dev_shell = max(dev_shell, dv)
        tot = sum(arrs)
        dev_sum = 0.0
        if arrs[0].shape[0]:
            dev_sum = max(float(np.max(np.abs(tot[:, 0] - M))), float(np.max(np.abs(tot[:, 1:])))) / M
        # sequential sub-systems (last k particles) may be ultra-relativistic (two massless daughters): boosts lose gamma^2*eps
        g2 = 1.0
        if arrs[0].shape[0] and len(arrs) > 2:
            acc = arrs[-1]
            for a in arrs[-2:0:-1]:
                acc = acc + a
                mm2 = np.maximum(kin.mass2(acc), 1e-300)
                g2 = max(g2, float(np.max(acc[:, 0] ** 2 / mm2)))
        tol_sum = 1e-12 * g2
        ctx.dev("momentum sum /(M*gamma^2)", dev_sum / g2, 1e-12)
        ok = ok_n and dev_shell <= 1e-12 and dev_sum <= tol_sum and all(np.all(np.isfinite(a)) for a in arrs)
        ctx.dev("mass shell |E2-p2-m2|/M2", dev_shell, 1e-12)
        ctx.check("contract: generate returns exactly N physical events", ok,
                  lambda: {"m0": M, "masses": masses, "requested": n_iter, "shapes": [a.shape for a in arrs], "mass_shell_dev": dev_shell, "sum_dev": dev_sum,
                           "flatten": flatten, "force": force},
                  mechanism="PhaseSpaceGenerator.generate " + ("count" if not ok_n else "kinematics"))
        return True

    def weight_in_unit_interval(self, result):
        w = np.asarray(result)
        if w.size == 0 or state.get("in_cal_max"):
            return True  # the optimiser inside cal_max_weight probes unphysical mass orderings; not an unweighting weight
        mx, mn = float(np.max(w)), float(np.min(w))
        ctx.dev("max acceptance weight", mx, 1.0)
        ctx.check("contract: 0 <= acceptance weight <= 1", mx <= 1.0 + 1e-12 and mn >= 0.0 and np.all(np.isfinite(w)),
                  lambda: {"m0": float(self.m0), "masses": [float(x) for x in self.m_mass], "max_weight": mx, "min_weight": mn, "after_cal_max_weight": bool(getattr(self, "_vh_calmax", False))},
                  mechanism="acceptance weight > 1" + (" (after cal_max_weight)" if getattr(self, "_vh_calmax", False) else ""))
        return True

    G = psm.PhaseSpaceGenerator
    _orig_cal = G.cal_max_weight

    def cal_max_weight_flagged(self):
        state["in_cal_max"] = True
        try:
            return _orig_cal(self)
        finally:
            state["in_cal_max"] = False

    G.cal_max_weight = cal_max_weight_flagged
    G.generate = icontract.ensure(physical_and_counted, error=PostBroken)(G.generate)
    G.get_weight = icontract.ensure(weight_in_unit_interval, error=PostBroken)(G.get_weight)

    FM = [0.0, 0.000511, 0.13957, 0.49368, 0.93827, 1.8648]

    def mass_set(rng, n):
        ms = [float(rng.choice(FM)) for _ in range(n)]
        if all(m == 0 for m in ms):
            ms[0] = 0.13957
        qkind = rng.choice(["tiny", "small", "medium", "large"])
        s = sum(ms) if sum(ms) > 0 else 1.0
        Q = {"tiny": 1e-3, "small": 0.05, "medium": 0.5, "large": 3.0}[str(qkind)] * max(s, 0.3) * float(rng.uniform(0.7, 1.3))
        return sum(ms) + Q, ms, str(qkind)

    # ---------------- kinematics / counts over many mass sets and sizes
    n_k = ctx.pick(120, 2500)
    for i, rng in ctx.cases("kinematics", n_k):
        n = 2 + i % 5
        m0, ms, qk = mass_set(rng, n)
        desc = {"m0": m0, "masses": ms, "Q_class": qk}
        try:
            with time_limit(40):
                gen = G(m0, ms)
                big = int(rng.choice([37, 1000, 4096])) if (n <= 4 and qk != "tiny") else 37
                for N in (1, 2, 10, big):
                    gen.generate(N)
                    if n > 2 and N >= 10:
                        gen.generate(N, flatten=False)
                        gen.generate(N, force=False)
                if n > 2:
                    gen.cal_max_weight()
                    gen._vh_calmax = True
                    gen.generate(int(rng.choice([10, 200])) if n <= 4 else 10)
        except CaseTimeout:
            ctx.count("case_timeout(inconclusive):kinematics")
            continue
        except Exception as e:
            ctx.violation("contract: generate returns exactly N physical events", ctx.exc_witness(e, **desc), mechanism="PhaseSpaceGenerator raises")
            continue
        ctx.case(("kin", n, tuple(ms), round(m0, 6)), nontrivial=n >= 3)
        ctx.covered("n_body", n)
        ctx.covered("Q_class", qk)
        if i < 2:
            p = gen.generate(2)
            ctx.sample({"section": "kinematics", **desc, "event0": [np.asarray(x)[0] for x in p]})

    # ---------------- distributions
    n_d = ctx.pick(36, 500)
    Nev = ctx.pick(40000, 300000)
    for i, rng in ctx.cases("distribution", n_d, budget_s=ctx.pick(300, 2400)):
        n = 3 + i % 4
        m0, ms, qk = mass_set(rng, n)
        if n >= 5:
            Nev_i = Nev // 4
        else:
            Nev_i = Nev
        if qk == "tiny":
            m0 = sum(ms) + 0.05 * max(sum(ms), 0.3)
            qk = "small"
        desc = {"m0": m0, "masses": ms, "Q_class": qk, "N": Nev_i}
        try:
            with time_limit(90):
                gen = G(m0, ms)
                if i % 2:
                    gen.cal_max_weight()
                    gen._vh_calmax = True
                ps = [np.asarray(p) for p in gen.generate(Nev_i)]
                wts, psw = gen.generate(Nev_i, flatten=False)
                wts = np.asarray(wts)
                psw = [np.asarray(p) for p in psw]
        except CaseTimeout:
            ctx.count("case_timeout(inconclusive):distribution")
            continue
        except Exception as e:
            ctx.violation("sub-system mass spectrum == LIPS density", ctx.exc_witness(e, **desc), mechanism="PhaseSpaceGenerator raises")
            continue
        subsets = [list(range(n - k, n)) for k in range(2, n)]  # the generator's own sequential sub-systems
        other = sorted(rng.choice(n, size=int(rng.integers(2, n)), replace=False).tolist())
        if other not in subsets and len(other) < n:
            subsets.append(other)
        for sub in subsets:
            lo = sum(ms[j] for j in sub)
            hi = m0 - sum(ms[j] for j in range(n) if j not in sub)
            rho = kin.subsystem_mass_density(m0, ms, sub)
            M = kin.mass(sum(ps[j] for j in sub))
            pv, x2, ndf = spectrum_test(M, rho, lo, hi)
            if pv is not None:
                stat.add("sub-system mass spectrum == LIPS density", "mass spectrum not LIPS-flat (unweighted, %s cal_max_weight)" % ("after" if i % 2 else "before"),
                         pv, dict(desc, subset=sub, chi2=x2, ndf=ndf))
            Mw = kin.mass(sum(psw[j] for j in sub))
            pv, x2, ndf = spectrum_test(Mw, rho, lo, hi, weights=wts)
            if pv is not None:
                stat.add("weighted mode == unweighted mode", "weighted mode spectrum", pv, dict(desc, subset=sub, chi2=x2, ndf=ndf, mode="weighted"))
        # isotropy of every final particle in the parent frame
        for j in (0, n - 1):
            p3 = ps[j][:, 1:]
            nrm = np.linalg.norm(p3, axis=-1)
            okn = nrm > 0
            cos = p3[okn, 2] / nrm[okn]
            phi = np.arctan2(p3[okn, 1], p3[okn, 0])
            for name, x, rg in (("cos", cos, (-1, 1)), ("phi", phi, (-math.pi, math.pi))):
                obs, _ = np.histogram(x, bins=20, range=rg)
                pv, x2, ndf = chi2_p(obs, np.full(20, okn.sum() / 20.0))
                if pv is not None:
                    stat.add("isotropy", "angular distribution not isotropic", pv, dict(desc, particle=j, variable=name, chi2=x2))
        if n == 3:
            s12 = kin.mass2(ps[0] + ps[1])
            s23 = kin.mass2(ps[1] + ps[2])
            g = 14
            e1 = np.linspace((ms[0] + ms[1]) ** 2, (m0 - ms[2]) ** 2, g + 1)
            e2 = np.linspace((ms[1] + ms[2]) ** 2, (m0 - ms[0]) ** 2, g + 1)
            H, _, _ = np.histogram2d(s12, s23, bins=[e1, e2])
            inside = np.zeros((g, g), dtype=bool)
            for a in range(g):
                for b in range(g):
                    ok = True
                    for x in np.linspace(e1[a], e1[a + 1], 5):
                        lo_, hi_ = dalitz_limits(x, m0, ms[0], ms[1], ms[2])
                        if not (lo_ <= e2[b] and e2[b + 1] <= hi_):
                            ok = False
                    inside[a, b] = ok
            if inside.sum() >= 8:
                obs = H[inside]
                exp = np.full(obs.shape, obs.sum() / obs.size)
                pv, x2, ndf = chi2_p(obs, exp)
                if pv is not None:
                    stat.add("Dalitz plot flat", "Dalitz plot not flat", pv, dict(desc, cells=int(inside.sum()), chi2=x2, ndf=ndf))
        ctx.case(("dist", n, tuple(ms), round(m0, 6), i % 2), nontrivial=True)
        ctx.covered("n_body", n)
        if i < 2:
            ctx.sample({"section": "distribution", **desc, "subsets_tested": subsets})

    # ---------------- nested cascades
    n_c = ctx.pick(60, 1200)
    for i, rng in ctx.cases("chain", n_c):
        depth = 1 + i % 3
        fin = lambda: float(rng.choice([0.13957, 0.49368, 0.93827, 0.0]))

        def build(level, budget):
            """returns (mass, struct) with struct = mass or (mass, [children])"""
            if level == 0:
                return fin()
            k = int(rng.integers(2, 4))
            kids = [build(level - 1, None) if (j == 0 or rng.random() < 0.4) else fin() for j in range(k)]
            msum = sum(x[0] if isinstance(x, tuple) else x for x in kids)
            return (msum + float(rng.uniform(0.05, 1.0)), kids)

        top = build(depth, None)
        if not isinstance(top, tuple):
            continue
        m0, mi = top
        N = int(rng.choice([1, 7, 300]))
        desc = {"struct": repr(top), "N": N}
        calibrated = i % 4 == 3
        desc["after_cal_max_weight"] = calibrated
        try:
            with time_limit(60):
                if calibrated:
                    # the optional calibration of every step of the cascade (two-body steps included), then the same request
                    cg = psm.ChainGenerator(m0, mi)
                    cg.cal_max_weight()
                    for g_ in cg.gen:
                        g_._vh_calmax = True
                    out = cg.generate(N)
                else:
                    out = psm.generate_phsp(m0, mi, N)
        except CaseTimeout:
            ctx.count("case_timeout(inconclusive):chain")
            continue
        except Exception as e:
            ctx.violation("ChainGenerator nested kinematics", ctx.exc_witness(e, **desc), mechanism="ChainGenerator raises" + (" (after cal_max_weight)" if calibrated else ""))
            continue
        ctx.covered("chain_calibrated", calibrated)

        def walk(struct, res):
            """returns total momentum of this node and checks masses"""
            if not isinstance(struct, tuple):
                a = np.asarray(res)
                ok = a.shape == (N, 4) and np.max(np.abs(kin.mass2(a) - struct**2)) <= 1e-10 * m0**2
                return a, ok
            mm, kids = struct
            tot = 0
            ok = True
            for k_, r_ in zip(kids, res):
                p_, o_ = walk(k_, r_)
                tot = tot + p_
                ok = ok and o_
            ok = ok and np.max(np.abs(kin.mass2(tot) - mm**2)) <= 1e-10 * m0**2
            return tot, ok

        tot, ok = walk(top, out)
        ok = ok and np.max(np.abs(tot[:, 1:])) <= 1e-10 * m0 and np.max(np.abs(tot[:, 0] - m0)) <= 1e-10 * m0
        ctx.check("ChainGenerator nested kinematics", bool(ok), lambda: desc, mechanism="ChainGenerator kinematics")
        ctx.case(("chain", repr(top), N), nontrivial=N >= 7)
        ctx.covered("chain_depth", depth)

    # ---------------- calibration history: the optional bound calibration of one generator must not depend on what was calibrated
    # before in the process.  A second generator with the SAME masses in another order is calibrated after the first; its bound is
    # compared with the bound the same generator (same order, same TensorFlow seed) gets in a fresh interpreter.  cal_max_weight
    # itself is known to be unreliable (recorded finding, keyed on weights > 1 after calibration); a weight above one whose bound
    # differs from the fresh-process bound is a different defect and is reported under its own mechanism.
    import itertools as _it
    import json as _json
    import subprocess as _sp
    import sys as _sys

    n_h = ctx.pick(8, 60)
    todo = []
    for i, rng in ctx.cases("calibration_history", n_h):
        n = 4 + i % 2
        for _ in range(50):
            m0, ms, qk = mass_set(rng, n)
            if len(set(ms)) >= 3 and qk in ("medium", "large"):
                break
        else:
            continue
        perms = [p_ for p_ in _it.permutations(range(n))]
        k1, k2 = rng.choice(len(perms), size=2, replace=False)
        o1, o2 = [ms[j] for j in perms[k1]], [ms[j] for j in perms[k2]]
        if o1 == o2:
            continue
        s1, s2 = int(rng.integers(1, 10**6)), int(rng.integers(1, 10**6))
        try:
            with time_limit(60):
                g1 = G(m0, o1)
                tf.random.set_seed(s1)
                g1.cal_max_weight()
                g2 = G(m0, o2)
                tf.random.set_seed(s2)
                g2.cal_max_weight()
                b2 = float(g2.m_wtMax)
                state["in_cal_max"] = True  # the weight contract is evaluated here, with the classification below
                try:
                    w2, _p = g2.generate(ctx.pick(20000, 60000), flatten=False)
                finally:
                    state["in_cal_max"] = False
                todo.append({"i": i, "m0": m0, "first_order": o1, "second_order": o2, "seed_second": s2, "bound_in_history": b2, "max_weight": float(np.max(np.asarray(w2)))})
        except CaseTimeout:
            ctx.count("case_timeout(inconclusive):calibration_history")
        except Exception as e:
            ctx.violation("calibration independent of history", ctx.exc_witness(e, m0=m0, first_order=o1, second_order=o2), mechanism="calibration history raises")
    if todo:
        code = (
            "import sys, json\n"
            "from vh import bootstrap\nbootstrap.init(0, threads=2)\n"
            "import tensorflow as tf\nimport tf_pwa.phasespace as psm\n"
            "out = []\n"
            "for c in json.load(sys.stdin):\n"
            "    g = psm.PhaseSpaceGenerator(c['m0'], c['second_order'])\n"
            "    tf.random.set_seed(c['seed_second'])\n"
            "    g.cal_max_weight()\n"
            "    out.append(float(g.m_wtMax))\n"
            "print('RESULT' + json.dumps(out))\n"
        )
        try:
            pr = _sp.run([_sys.executable, "-c", code], input=_json.dumps(todo), capture_output=True, text=True, timeout=ctx.pick(600, 1200))
            line = [l for l in pr.stdout.splitlines() if l.startswith("RESULT")]
            fresh = _json.loads(line[-1][6:]) if line else None
        except _sp.TimeoutExpired:
            fresh = None
        if fresh is None:
            ctx.count("calibration_history reference process failed (inconclusive)")
        else:
            for c, bf in zip(todo, fresh):
                same = abs(c["bound_in_history"] - bf) <= 1e-9 * abs(bf)
                over = c["max_weight"] > 1.0 + 1e-12
                wit = dict(c, bound_in_fresh_process=bf)
                if over and same:
                    # the recorded unreliability of cal_max_weight itself (the generator alone reproduces the too-small bound)
                    ctx.check("contract: 0 <= acceptance weight <= 1", False, wit, mechanism="acceptance weight > 1 (after cal_max_weight)")
                else:
                    ctx.check("calibration independent of history", not over, wit,
                              mechanism="acceptance weight > 1 after cal_max_weight, bound differs from the one the same generator gets in a fresh process")
                ctx.case(("calhist", c["i"]), nontrivial=True)
                ctx.covered("calibration_history_bound_reproduced", same)

    # ---------------- gen_mc and ConfigLoader.generate_phsp_p
    n_g = ctx.pick(12, 100)
    for i, rng in ctx.cases("api", n_g):
        n = 3 + i % 2
        m0, ms, qk = mass_set(rng, n)
        N = int(rng.choice([1, 50, 1001]))
        try:
            arr = gen_mc(m0, ms, N)
            ok = arr.shape == (N * n, 4)
            per = arr.reshape(N, n, 4)
            ok = ok and all(np.max(np.abs(kin.mass2(per[:, j]) - ms[j] ** 2)) <= 1e-12 * m0**2 for j in range(n))
            ok = ok and np.max(np.abs(per.sum(1)[:, 1:])) <= 1e-12 * m0
            ctx.check("gen_mc / generate_phsp_p", bool(ok), lambda: {"m0": m0, "masses": ms, "N": N, "shape": arr.shape}, mechanism="gen_mc")
            if i % 3 == 0:
                from ..gen import cards

                card = cards.CardGen(rng, "_c10s%di%d" % (ctx.seed, i), nbody=n, n_chains=(1, 2), final_j2=(0,), res_j2_int=(0, 2)).make()
                cfg = cards.load(card)
                cal_max = bool((i // 3) % 2)
                try:
                    p = cfg.generate_phsp_p(N, cal_max=True) if cal_max else cfg.generate_phsp_p(N)
                except Exception as e2:
                    ctx.violation("gen_mc / generate_phsp_p", ctx.exc_witness(e2, card=cards.short(card), N=N, cal_max=cal_max),
                                  mechanism="ConfigLoader.generate_phsp_p raises" + (" (cal_max=True)" if cal_max else ""))
                    continue
                ctx.covered("generate_phsp_p_cal_max", cal_max)
                fm = {f["name"]: f["mass"] for f in card["meta"]["finals"]}
                arrs = {str(k): np.asarray(v) for k, v in p.items()}
                M0 = card["meta"]["top"]["mass"]
                ok = set(arrs) == set(fm) and all(a.shape == (N, 4) for a in arrs.values())
                ok = ok and all(np.max(np.abs(kin.mass2(arrs[k]) - fm[k] ** 2)) <= 1e-12 * M0**2 for k in fm)
                tot = sum(arrs.values())
                ok = ok and np.max(np.abs(tot[:, 1:])) <= 1e-12 * M0 and np.max(np.abs(tot[:, 0] - M0)) <= 1e-12 * M0
                ctx.check("gen_mc / generate_phsp_p", bool(ok), lambda: {"card": cards.short(card), "N": N}, mechanism="ConfigLoader.generate_phsp_p")
            if i % 3 == 1:
                # the config-level generator with preferred nodes (get_phsp_p_generator(nodes=[...])): the events must be the declared
                # decay whatever node list is asked for - every particle on ITS mass shell, momentum sum = parent at rest
                from ..gen import cards

                card = cards.CardGen(rng, "_c10ns%di%d" % (ctx.seed, i), nbody=4, n_chains=(1, 2), final_j2=(0,), res_j2_int=(0, 2)).make()
                fnames = [f["name"] for f in card["meta"]["finals"]]
                fm = dict(zip(fnames, [0.1, 0.2, 0.3, 0.45]))  # unequal masses make a wrong assignment visible
                for k_, v_ in fm.items():
                    card["config"]["particle"]["$finals"][k_]["mass"] = v_
                topn = card["meta"]["top"]["name"]
                card["config"]["particle"]["$top"][topn]["mass"] = 3.0
                for r_ in card["meta"]["resonances"]:
                    card["config"]["particle"][r_["name"]]["mass"] = 1.6
                cfg = cards.load(card)
                first = [str(x) for x in rng.choice(fnames, size=2, replace=False)]
                rest_ = [x for x in fnames if x not in first]
                node_lists = [[first], [first, first + [str(rng.choice(rest_))]], [[str(x) for x in rng.choice(fnames, size=3, replace=False)]]]
                for nodes in node_lists:
                    arrs = {str(k): np.asarray(v) for k, v in cfg.get_phsp_p_generator(nodes=nodes).generate(200).items()}
                    ok = set(arrs) == set(fm) and all(a.shape == (200, 4) for a in arrs.values())
                    dev_m = max(float(np.max(np.abs(kin.mass2(arrs[k]) - fm[k] ** 2))) for k in fm) if ok else np.inf
                    tot = sum(arrs.values()) if ok else np.zeros((1, 4))
                    ok = ok and dev_m <= 1e-10 * 9.0 and np.max(np.abs(tot[:, 1:])) <= 1e-10 * 3.0 and np.max(np.abs(tot[:, 0] - 3.0)) <= 1e-10 * 3.0
                    ctx.check("gen_mc / generate_phsp_p", bool(ok), lambda: {"nodes": nodes, "masses": fm, "worst_m2_deviation": dev_m, "card": cards.short(card)},
                              mechanism="get_phsp_p_generator(nodes: %d entr%s)" % (len(nodes), "y" if len(nodes) == 1 else "ies"))
                    ctx.covered("preferred_nodes", len(nodes))
        except Exception as e:
            ctx.violation("gen_mc / generate_phsp_p", ctx.exc_witness(e, m0=m0, masses=ms, N=N), mechanism="gen_mc/generate_phsp_p raises")
        ctx.case(("api", n, N, i), nontrivial=N > 1)

    # ---------------- judge the statistical monitors (Bonferroni)
    ntests = max(1, len(stat.tests))
    alpha = 1e-8 / ntests
    ctx.count("statistical_tests", len(stat.tests))
    minp = {}
    for monitor, mech, pv, wit in stat.tests:
        if not np.isfinite(pv):
            ctx.count("statistical_test_not_evaluable(nan)")
            continue
        ctx.check(monitor, pv >= alpha, dict(wit, p_value=pv, alpha_per_test=alpha), mechanism=mech)
        minp[monitor] = min(minp.get(monitor, 1.0), pv)
    for k, v in minp.items():
        ctx.dev("-log10(min p) " + k, -math.log10(max(v, 1e-300)), -math.log10(alpha))
