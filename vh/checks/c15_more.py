"""C15, second part: the registered line shapes beyond the Breit-Wigner family of c15.py.

Every model below has a formula (or a defining statement) in its docstring; the reference is a NumPy/SciPy transcription of
that docstring, evaluated on the same masses as Particle.__call__ / get_ls_amp of a particle built through a ConfigLoader card.

  LASS                   R = m/(q cot d_B - i q) + e^{2 i d_B} m0 G0 (m0/q0) / (m0^2 - m^2 - i m0 G0 (q/m)(m0/q0))
  FlatteGen / Flatte2    1/(m0^2 - m^2 - i m0 sum_i g_i (q_i/m)(m0/|q_i0|)(|q_i|/|q_i0|)^{2 l_i} B'^2) with the documented options
                         l_list, has_bprime, no_m0, no_q0, cut_phsp (Flatte2: g_i^2)
  KMatrixSingleChannel   K = sum m_i Gamma_i(m)/(m_i^2-m^2), P = sum beta_i m_i Gamma_i/(m_i^2-m^2), R = P/(1-iK)
  KmatrixSimple          R = n (1 - i K rho n^2)^-1 P  with  n = q^l B'_l(q,1/d,d), rho = q/m, K and P with +i epsilon
  MultiBW                "combine multi BW": identities (unit coefficient == BW, linear in the coefficients)
  interp, interp_c, linear_npy, linear_txt     linear interpolation (numpy.interp), zero outside the points
  spline_c, spline_c_idx                       cubic spline, not-a-knot (scipy CubicSpline)
  interp_lagrange                              the polynomial through all points (scipy BarycentricInterpolator)
  interp1d3                                    "piecewise third order interpolation": passes through the points, reproduces cubics
  interp_hist, hist_idx                        constant in each bin
  sppchip                                      passes through the points, monotone in each interval, PCHIP slopes in the interior

Not judged (stated in ASSUMPTIONS of c15): Kmatrix, KMatrixSplitLS, interp_l3 (no formula / undefined symbols in the docstring),
Kpi_Swave and pipi_Swave (documentation refers to external AmpGen sources that are not available offline).
"""
import math
import os
import tempfile

import numpy as np

from ..gen import cards
from ..oracle import lineshape as ls

MORE_MODELS = ["LASS", "FlatteGen", "Flatte2", "KMatrixSingleChannel", "KmatrixSimple", "MultiBW",
               "interp", "interp_c", "linear_npy", "linear_txt", "spline_c", "spline_c_idx", "interp_lagrange", "interp1d3",
               "interp_hist", "hist_idx", "sppchip"]
KF_KSIMPLE = "KmatrixSimple barrier factor n = (q d)^l B'_l instead of the documented q^l B'_l(q,1/d,d) (l > 0)"
FLATTE_OPTS = [{}, {"l_list": [0, 1]}, {"l_list": [1, 2], "has_bprime": False}, {"no_m0": True}, {"no_q0": True, "l_list": [1, 0]},
               {"cut_phsp": True, "l_list": [0, 2]}, {"l_list": [2, 1], "no_m0": True, "cut_phsp": True}]


def cdev(a, b):
    a = np.asarray(a)
    b = np.asarray(b)
    if a.shape != b.shape or not np.all(np.isfinite(a)):
        return np.inf
    return float(np.max(np.abs(a - b) / (np.abs(b) + 1e-300)))


def adev(a, b, scale):
    """absolute deviation relative to a common scale (for interpolants that pass through zero)"""
    a = np.asarray(a)
    b = np.asarray(b)
    if a.shape != b.shape or not np.all(np.isfinite(a)):
        return np.inf
    return float(np.max(np.abs(a - b)) / scale)


def build(tag, part, J=0, P=1, mB=0.13957, mD=0.49368, mC=0.13957, MA=3.2, fJ=(0, 0, 0), fP=(1, 1, 1), topJ=0):
    n = {k: k + tag for k in "ARBCD"}
    part = dict(part)
    part.setdefault("J", J)
    part.setdefault("P", P)
    cfg = {"decay": {n["A"]: [[n["R"], n["C"], {"p_break": True}]], n["R"]: [n["B"], n["D"]]},
           "particle": {"$top": {n["A"]: {"J": topJ, "P": 1, "mass": MA}},
                        "$finals": {n["B"]: {"J": fJ[0], "P": fP[0], "mass": mB}, n["C"]: {"J": fJ[1], "P": fP[1], "mass": mC},
                                    n["D"]: {"J": fJ[2], "P": fP[2], "mass": mD}}, n["R"]: part},
           "data": {"dat_order": [n["B"], n["C"], n["D"]]}}
    c = cards.load({"config": cfg, "meta": {}})
    amp = c.get_amplitude()
    R = c.get_decay().get_particle(n["R"])
    return cfg, amp, R, n["R"]


def set_checked(amp, sp):
    pn = amp.get_params()
    missing = [k for k in sp if k not in pn]
    if missing:
        raise RuntimeError("expected parameters %s not among %s" % (missing, sorted(pn)))
    amp.set_params(sp)


def run_more(ctx):
    import tensorflow as tf
    from scipy.interpolate import BarycentricInterpolator, CubicSpline, PchipInterpolator

    import tf_pwa.amp.interpolation  # noqa: F401  (registers the interpolation models; not imported by tf_pwa.amp itself)

    T = lambda x: tf.constant(np.asarray(x, dtype=np.float64))
    MON = "model == documented formula (more models)"
    n_m = ctx.pick(len(MORE_MODELS) * 4, len(MORE_MODELS) * 40)
    tmpd = tempfile.mkdtemp(prefix="c15more")
    for i, rng in ctx.cases("more_models", n_m, budget_s=ctx.pick(300, 1800)):
        model = MORE_MODELS[i % len(MORE_MODELS)]
        rnd = i // len(MORE_MODELS)
        tag = "_c15m%di%d" % (ctx.seed, i)
        mB, mD = float(rng.choice([0.13957, 0.49368, 0.3])), float(rng.choice([0.13957, 0.49368, 0.93827]))
        lo = mB + mD
        MA = lo + 0.14 + float(rng.uniform(1.5, 2.5))
        hi = MA - 0.14
        d = 3.0
        m = np.sort(rng.uniform(lo + 5e-3, hi - 1e-3, 48))
        q = ls.q_of(m, mB, mD)
        desc = {"model": model}
        ctx.context = desc
        mech = "Particle.__call__ vs documented formula: " + model
        try:
            # -------------------------------------------------------------------------------------------------- LASS
            if model == "LASS":
                m0, g0 = lo + float(rng.uniform(0.3, 1.0)), float(rng.uniform(0.05, 0.4))
                a, r = float(rng.uniform(0.5, 4.0)), float(rng.uniform(0.5, 4.0))
                sa, sr = (-1 if rnd % 2 else 1), (-1 if rnd % 3 == 1 else 1)  # documented through |a|, |r| in the code: sign must not matter
                cfg, amp, R, rn = build(tag, {"model": model, "mass": m0, "width": g0}, mB=mB, mD=mD, MA=MA)
                set_checked(amp, {rn + "_a": sa * a, rn + "_r": sr * r})
                got = np.asarray(R(T(m)))
                q0 = ls.q_of(m0, mB, mD)
                cot = 1 / (a * q) + 0.5 * r * q
                e2 = (cot**2 - 1) / (cot**2 + 1) + 1j * 2 * cot / (cot**2 + 1)
                ref = m / (q * cot - 1j * q) + e2 * m0 * g0 * (m0 / q0) / ((m0**2 - m**2) - 1j * m0 * g0 * (q / m) * (m0 / q0))
                desc.update(config=cfg, a=sa * a, r=sr * r)
                dv = cdev(got, ref)
                ctx.dev("more models: LASS", dv, 1e-10)
                ctx.check(MON, dv < 1e-10, lambda: dict(desc, dev=dv, lib=got[:3], ref=ref[:3]), mechanism=mech)
                # the symbolic denominator offered for pole searches
                try:
                    import sympy as sym

                    from tf_pwa.amp.core import Particle as _P

                    var = R.get_sympy_var()
                    expr = R.get_sympy_dom(*var)
                    numv = [float(np.asarray(x)) for x in R.get_num_var()]
                    pts = m[::8]
                    vals = np.array([complex(sym.N(expr.subs(dict(zip(var[1:], numv))).subs({var[0]: float(x)}), 30)) for x in pts])
                    want = 1 / got[::8]
                    dvs = cdev(vals, want)
                    from .c15 import KF_INHERITED_DOM

                    ctx.check("sympy denominator == 1/shape", dvs < 1e-8, lambda: dict(desc, dev=dvs, m=pts[:3], sympy=vals[:3], one_over_shape=want[:3]),
                              mechanism=KF_INHERITED_DOM if type(R).get_sympy_dom is _P.get_sympy_dom else "sympy denominator: LASS")
                except NotImplementedError:
                    ctx.count("sympy_dom_not_provided:LASS")
            # -------------------------------------------------------------------------------------------------- FlatteGen / Flatte2
            elif model in ("FlatteGen", "Flatte2"):
                opts = FLATTE_OPTS[(rnd + (4 if model == "Flatte2" else 0)) % len(FLATTE_OPTS)]  # the quick tier (4 rounds) meets every option set
                ml = [[mB, mD], [float(rng.uniform(0.2, 0.7)), float(rng.uniform(0.2, 0.7))]]
                if rnd % 2:
                    ml.append([float(rng.uniform(0.1, 0.4)), float(rng.uniform(0.4, 0.9))])
                ll = list(opts.get("l_list", [0] * len(ml)))
                ll = (ll + [int(rng.integers(0, 3))] * len(ml))[: len(ml)]
                popts = dict(opts)
                if "l_list" in opts or len(ml) == 3:
                    popts["l_list"] = ll
                m0 = lo + float(rng.uniform(0.2, 1.2))
                cfg, amp, R, rn = build(tag, dict({"model": model, "mass": m0, "mass_list": ml}, **popts), mB=mB, mD=mD, MA=MA)
                g = [float(rng.uniform(0.1, 0.9)) for _ in ml]
                set_checked(amp, {rn + "_g_%d" % k: g[k] for k in range(len(ml))})
                mm = np.concatenate([np.linspace(max(0.12, lo - 0.25), lo - 1e-3, 8), m])  # below the first threshold too
                if opts.get("cut_phsp"):
                    # documented cut: q_i = 0 where the Kallen product is negative; the code cuts for m < m1 + m2.  The two agree above the
                    # pseudo-thresholds |m1 - m2| (below them the product is positive again - an unphysical region that is not judged)
                    mm = mm[mm > max(abs(a_ - b_) for a_, b_ in ml) + 1e-3]
                got = np.asarray(R(T(mm)))
                gg = [x * x for x in g] if model == "Flatte2" else g
                tot = 0
                for (ma, mb), gi, l in zip(ml, gg, ll):
                    q2 = ls.q2_of(mm, ma, mb)
                    qi = np.where(q2 >= 0, np.sqrt(np.abs(q2)) + 0j, 1j * np.sqrt(np.abs(q2)))
                    q0a = math.sqrt(abs(ls.q2_of(m0, ma, mb)))
                    t = gi * qi / mm
                    if opts.get("no_q0"):
                        q0a = 1.0
                    else:
                        t = t * m0 / q0a
                    t = t * (np.abs(qi) / q0a) ** (2 * l)
                    if opts.get("has_bprime", True):
                        t = t * ls.bprime(l, np.abs(qi), q0a, d) ** 2
                    if opts.get("cut_phsp"):
                        t = np.where(q2 < 0, 0, t)
                    tot = tot + t
                ref = 1 / (m0**2 - mm**2 - 1j * (1.0 if opts.get("no_m0") else m0) * tot)
                desc.update(config=cfg, options=popts, g=g)
                dv = cdev(got, ref)
                ctx.dev("more models: FlatteGen/Flatte2", dv, 1e-10)
                ctx.check(MON, dv < 1e-10, lambda: dict(desc, dev=dv, m=mm[:3], lib=got[:3], ref=ref[:3]), mechanism=mech)
                ctx.covered("flatte_options", "+".join(sorted(opts)) or "none")
                # symbolic denominator (pole search) == 1/numeric shape, on the sheet where every channel has +q_i as the numeric shape
                if True:
                    try:
                        import sympy as sym

                        var = R.get_sympy_var()
                        expr = R.get_sympy_dom(*var, sheet=2 ** len(ml) - 1)
                        numv = [float(np.asarray(x)) for x in R.get_num_var()]
                        # above every channel threshold: below one the numeric shape with cut_phsp is not analytic, while the symbolic
                        # denominator is the analytic continuation that pole searches evaluate at complex masses
                        pts = mm[mm > max(a_ + b_ for a_, b_ in ml)][::6]
                        if len(pts) == 0:
                            raise NotImplementedError
                        vals = np.array([complex(sym.N(expr.subs(dict(zip(var[1:], numv))).subs({var[0]: float(x)}), 30)) for x in pts])
                        want = 1 / np.asarray(R(T(pts)))
                        dvs = cdev(vals, want)
                        ctx.check("sympy denominator == 1/shape", dvs < 1e-8, lambda: dict(desc, dev=dvs, m=pts[:3], sympy=vals[:3], numeric=want[:3]),
                                  mechanism="sympy denominator: " + model + (" (cut_phsp)" if opts.get("cut_phsp") else ""))
                    except NotImplementedError:
                        ctx.count("sympy_dom_not_provided:" + model)
            # -------------------------------------------------------------------------------------------------- KMatrixSingleChannel
            elif model == "KMatrixSingleChannel":
                J = rnd % 3
                npole = 1 + rnd % 3
                mi = sorted(lo + float(rng.uniform(0.2, 1.6)) for _ in range(npole))
                gi = [float(rng.uniform(0.05, 0.3)) for _ in range(npole)]
                cfg, amp, R, rn = build(tag, {"model": model, "mass": mi[0], "mass_list": mi, "width_list": gi}, J=J, P=(-1) ** J, mB=mB, mD=mD, MA=MA)
                beta = [1.0 + 0j] + [complex(rng.uniform(0.2, 1.5) * np.exp(1j * rng.uniform(-3, 3))) for _ in range(npole - 1)]
                sp = {}
                for k in range(1, npole):
                    sp[rn + "_beta%dr" % (k + 1)] = abs(beta[k])
                    sp[rn + "_beta%di" % (k + 1)] = float(np.angle(beta[k]))
                set_checked(amp, sp)
                got = np.asarray(R(T(m)))
                K = 0
                Pv = 0
                for a_, b_, c_ in zip(mi, gi, beta):
                    K = K + a_ * ls.gamma_run(m, a_, b_, q, ls.q_of(a_, mB, mD), J, d) / (a_**2 - m**2)
                    Pv = Pv + c_ * a_ * b_ / (a_**2 - m**2)
                ref = Pv / (1 - 1j * K)
                desc.update(config=cfg, beta=beta)
                dv = cdev(got, ref)
                ctx.dev("more models: KMatrixSingleChannel", dv, 1e-9)
                ctx.check(MON, dv < 1e-9, lambda: dict(desc, dev=dv, m=m[:3], lib=got[:3], ref=ref[:3]), mechanism=mech)
                ctx.covered("kmatrix_poles", npole)
            # -------------------------------------------------------------------------------------------------- KmatrixSimple
            elif model == "KmatrixSimple":
                J = rnd % 3
                extra = {} if rnd % 2 == 0 else {"extra_decay_list": [[float(rng.uniform(0.2, 0.5)), float(rng.uniform(0.3, 0.7))]], "extra_l_list": [int(rng.integers(0, 3))]}
                mi = sorted(lo + float(rng.uniform(0.2, 1.6)) for _ in range(2))
                cfg, amp, R, rn = build(tag, dict({"model": model, "mass": mi[0], "mass_list": mi}, **extra), J=J, P=(-1) ** J, mB=mB, mD=mD, MA=MA)
                chans = [[mB, mD]] + extra.get("extra_decay_list", [])
                ll = [J] + extra.get("extra_l_list", [])
                nch = len(chans)
                g = rng.uniform(0.3, 1.0, (nch, 2))
                beta = np.array([1.0 + 0j, complex(rng.uniform(0.2, 1.0) * np.exp(1j * rng.uniform(-3, 3)))])
                bkg = rng.uniform(0.05, 0.4, nch) * np.exp(1j * rng.uniform(-3, 3, nch))
                sp = {rn + "_beta_1r": abs(beta[1]), rn + "_beta_1i": float(np.angle(beta[1]))}
                for a_ in range(nch):
                    for k in range(2):
                        sp[rn + "_gij_%d_%d" % (a_, k)] = float(g[a_, k])
                    sp[rn + "_bkg_%dr" % a_] = float(abs(bkg[a_]))
                    sp[rn + "_bkg_%di" % a_] = float(np.angle(bkg[a_]))
                set_checked(amp, sp)
                # away from the poles (the documented +i epsilon regularisation, epsilon = 1e-10, is part of the reference)
                mm = m[np.min(np.abs(m[:, None] - np.array(mi)[None, :]), axis=1) > 0.02]
                got = np.asarray(R(T(mm)))
                out = []
                for x in mm:
                    qv = np.array([ls.q_of(x, a_, b_) if x > a_ + b_ else 0.0 for a_, b_ in chans])
                    nn = np.array([(qq**l) * ls.bprime(l, qq, 1 / d, d) for qq, l in zip(qv, ll)])
                    rho = qv / x
                    K = np.zeros((nch, nch), complex)
                    Pv = np.zeros(nch, complex)
                    for k, mk in enumerate(mi):
                        K += np.outer(g[:, k], g[:, k]) / (mk**2 - x**2 - 1e-10j)
                        Pv += beta[k] * g[:, k] / (mk**2 - x**2 - 1e-10j)
                    Pv += bkg
                    out.append(np.diag(nn) @ np.linalg.inv(np.eye(nch) - 1j * K @ np.diag(rho * nn**2)) @ Pv)
                ref = np.array(out)[:, : got.shape[1]]
                desc.update(config=cfg, l_of_channels=ll)
                dv = cdev(got, ref)
                if any(l > 0 for l in ll):
                    mech = KF_KSIMPLE
                else:
                    ctx.dev("more models: KmatrixSimple (l=0)", dv, 1e-7)
                ctx.check(MON, dv < 1e-7, lambda: dict(desc, dev=dv, m=mm[:3], lib=got[:3], ref=ref[:3]), mechanism=mech)
                ctx.covered("kmatrix_simple_channels", nch)
            # -------------------------------------------------------------------------------------------------- MultiBW
            elif model == "MultiBW":
                m0, g0 = lo + float(rng.uniform(0.3, 1.0)), float(rng.uniform(0.05, 0.3))
                cfg, amp, R, rn = build(tag, {"model": model, "mass": m0, "width": g0, "mass_list": [m0, m0 + 0.35], "width_list": [g0, 1.4 * g0], "J": 1, "P": 1},
                                        mB=mB, mD=mD, MA=MA, fJ=(1, 0, 0), fP=(-1, 1, -1), topJ=1)
                pn = amp.get_params()
                lsl = [(0, 1), (2, 1)]
                q2t, q02 = T(ls.q2_of(m, mB, mD)), ls.q2_of(m0, mB, mD)
                base = {k: 0.0 for k in pn if "coeff" in k}

                def call(vals):
                    pp = dict(base)
                    pp.update(vals)
                    amp.set_params(pp)
                    return np.stack([np.asarray(x) for x in R.get_ls_amp(T(m), lsl, q2t, q02)])

                c00, c01 = rn + "_coeff_0_0", rn + "_coeff_0_1"
                one = call({c00 + "r": 1.0, c00 + "i": 0.0})
                e2 = call({c01 + "r": 1.0, c01 + "i": 0.0})
                two = call({c00 + "r": 1.0, c00 + "i": 0.0, c01 + "r": 0.7, c01 + "i": 0.4})
                okA = cdev(one[0], ls.BW(m, m0, g0)) < 1e-7 and np.max(np.abs(one[1])) < 1e-14
                okB = cdev(e2[0], ls.BW(m, m0 + 0.35, 1.4 * g0)) < 1e-7
                lin = min(cdev(two[0], one[0] + (0.7 * np.exp(0.4j)) * e2[0]), cdev(two[0], one[0] + (0.7 + 0.4j) * e2[0])) < 1e-7
                desc.update(config=cfg)
                ctx.check(MON, bool(okA and okB and lin), lambda: dict(desc, identities={"unit coefficient == BW(m0,g0)": bool(okA), "second component == BW(m1,g1)": bool(okB),
                                                                                         "linear in the coefficients": bool(lin)}), mechanism="MultiBW identities")
            # -------------------------------------------------------------------------------------------------- interpolation family
            else:
                N = int(rng.integers(5, 10))
                uniform = rnd % 2 == 0
                xlo, xhi = lo + 0.02, hi - 0.02
                xs = np.linspace(xlo, xhi, N) if uniform else np.sort(np.concatenate([[xlo, xhi], rng.uniform(xlo + 0.03, xhi - 0.03, N - 2)]))
                if not uniform and np.min(np.diff(xs)) < 0.02:
                    xs = np.linspace(xlo, xhi, N) ** 1.0 + np.linspace(0, 1, N) * (1 - np.linspace(0, 1, N)) * 0.2  # distinct, non-uniform
                # the documented with_bound option (hist_idx, spline_c_idx): every point free instead of zero at both ends
                wb = model in ("hist_idx", "spline_c_idx", "spline_c", "sppchip") and rnd % 4 >= 2
                part = {"model": model, "mass": 0.5 * (xlo + xhi)}
                if uniform:
                    part.update({"min_m": float(xlo), "max_m": float(xhi), "interp_N": N})
                else:
                    part["points"] = [float(x) for x in xs]
                if wb:
                    part["with_bound"] = True
                ctx.covered("interp_grid", "uniform" if uniform else "non-uniform")
                ctx.covered("interp_with_bound", wb)
                file_vals = None
                if model in ("linear_npy", "linear_txt"):
                    file_vals = rng.uniform(0.3, 1.5, N) * np.exp(1j * rng.uniform(-3, 3, N))
                    arr = np.stack([xs, file_vals.real, file_vals.imag], axis=-1)
                    path = os.path.join(tmpd, "pts%d.%s" % (i, "npy" if model == "linear_npy" else "txt"))
                    (np.save if model == "linear_npy" else np.savetxt)(path, arr)
                    part = {"model": model, "mass": 0.5 * (xlo + xhi), "file": path}
                cfg, amp, R, rn = build(tag, part, mB=mB, mD=mD, MA=MA)
                pn = amp.get_params()
                if model == "interp":
                    vals = rng.uniform(0.2, 2.0, N + 1) * rng.choice([-1, 1], N + 1)  # documented for real numbers; the model uses |p|
                    free = {rn + "_point_%d" % k: float(vals[k]) for k in range(N + 1)}
                    amp.set_params({k: v for k, v in free.items() if k in pn})
                    g = amp.get_params()
                    nodes = np.abs(np.array([float(g[rn + "_point_%d" % k]) for k in range(N)])) + 0j
                elif file_vals is not None:
                    nodes = file_vals
                else:
                    ks = sorted(k for k in pn if k.startswith(rn + "_point_"))
                    npts = len(ks) // 2
                    z = rng.uniform(0.3, 1.5, npts) * np.exp(1j * rng.uniform(-3, 3, npts))
                    sp = {}
                    for k in range(npts):
                        sp[rn + "_point_%dr" % k] = float(abs(z[k]))
                        sp[rn + "_point_%di" % k] = float(np.angle(z[k]))
                    set_checked(amp, sp)
                    g = amp.get_params()  # one point is fixed to 1 by the model: read the values back
                    z = np.array([g[rn + "_point_%dr" % k] * np.exp(1j * g[rn + "_point_%di" % k]) for k in range(npts)])
                    if model in ("interp_hist", "hist_idx"):
                        nodes = z
                    else:
                        nodes = z if wb else np.concatenate([[0], z, [0]])
                mm = np.sort(rng.uniform(xlo + 1e-4, xhi - 1e-4, 60))
                mm = mm[np.min(np.abs(mm[:, None] - xs[None, :]), axis=1) > 1e-6]  # bin edges: half-open conventions are not documented
                desc.update(config=cfg, points=xs, values=nodes, with_bound=wb)
                got = np.asarray(R(T(mm)))
                scale = float(np.max(np.abs(nodes)))
                tol = 1e-9
                ref = None
                if model in ("interp", "interp_c", "linear_npy", "linear_txt"):
                    ref = np.interp(mm, xs, nodes.real) + 1j * np.interp(mm, xs, nodes.imag)
                elif model in ("spline_c", "spline_c_idx"):
                    ref = CubicSpline(xs, nodes, bc_type="not-a-knot")(mm)
                    tol = 1e-7  # the library expands each piece in powers of the absolute mass (cancellations ~1e-11 observed)
                elif model == "interp_lagrange":
                    ref = BarycentricInterpolator(xs, nodes)(mm)
                    tol = 1e-7
                elif model == "interp_hist":
                    mids = (xs[:-1] + xs[1:]) / 2
                    full = np.concatenate([[0], nodes, [0]])  # constant around each interior point, zero around the two end points
                    ref = full[np.searchsorted(mids, mm, side="left")]
                    keep = np.min(np.abs(mm[:, None] - mids[None, :]), axis=1) > 1e-6
                    mm, got, ref = mm[keep], got[keep], ref[keep]
                elif model == "hist_idx":
                    if len(nodes) != N - 1:
                        ctx.violation(MON, dict(desc, n_values=len(nodes), n_bins=N - 1), mechanism="hist_idx: number of bin values != number of bins")
                        continue
                    ref = nodes[np.searchsorted(xs, mm, side="right") - 1]
                if ref is not None:
                    dv = adev(got, ref, scale)
                    ctx.dev("more models: interpolation family (dev/tol)", dv / tol, 1.0)
                    ctx.check(MON, dv < tol, lambda: dict(desc, dev=dv, m=mm[:4], lib=got[:4], ref=ref[:4]), mechanism=mech + (" (with_bound)" if wb else ""))
                if model in ("interp1d3", "sppchip", "spline_c", "spline_c_idx", "interp_c", "interp_lagrange", "linear_npy", "linear_txt"):
                    # an interpolant passes through its points (evaluated just inside, the value at a node is the limit from the right)
                    inner = xs[1:-1]
                    at = np.asarray(R(T(inner)))
                    dvn = adev(at, nodes[1:-1], scale)
                    ctx.check("interpolant passes through its points", dvn < 1e-7, lambda: dict(desc, dev=dvn, lib=at[:4], values=nodes[1:5]),
                              mechanism="interpolant does not pass through its points: " + model)
                if model == "interp1d3":
                    # third order: a cubic sampled at the points is reproduced wherever four neighbouring points are used.  The model has
                    # zero at both end points and fixes one point to 1, so the cubic has roots at the ends and is normalised at that point.
                    r3 = xlo - float(rng.uniform(0.2, 0.6))
                    kf = int(R.fix_idx)
                    cub = lambda x: (x - xlo) * (x - xhi) * (x - r3) / ((xs[kf + 1] - xlo) * (xs[kf + 1] - xhi) * (xs[kf + 1] - r3))
                    cv = cub(xs[1:-1])
                    sp = {}
                    for k in range(N - 2):
                        sp[rn + "_point_%dr" % k] = float(abs(cv[k]))
                        sp[rn + "_point_%di" % k] = 0.0 if cv[k] >= 0 else math.pi
                    amp.set_params(sp)
                    g = amp.get_params()
                    zz = np.array([g[rn + "_point_%dr" % k] * np.exp(1j * g[rn + "_point_%di" % k]) for k in range(N - 2)])
                    if np.max(np.abs(zz - cv)) < 1e-9:
                        sel = (mm > xs[1]) & (mm < xs[-2])
                        got3 = np.asarray(R(T(mm[sel])))
                        ref3 = cub(mm[sel])
                        dv3 = adev(got3, ref3, float(np.max(np.abs(cv))))
                        ctx.check(MON, dv3 < 1e-8, lambda: dict(desc, dev=dv3, cubic_roots=[xlo, xhi, r3], m=mm[sel][:4], lib=got3[:4], ref=ref3[:4]),
                                  mechanism="interp1d3 does not reproduce a cubic")
                    else:
                        ctx.count("interp1d3 cubic test skipped (fixed point elsewhere)")
                if model == "sppchip":
                    fine = np.linspace(xlo + 1e-6, xhi - 1e-6, 1500)
                    val = np.asarray(R(T(fine)))
                    okm = True
                    worst = None
                    for k in range(N - 1):
                        s = (fine > xs[k]) & (fine < xs[k + 1])
                        for comp, nv in ((val.real, nodes.real), (val.imag, nodes.imag)):
                            dd = np.diff(comp[s])
                            sgn = np.sign(nv[k + 1] - nv[k])
                            bad = np.max(-sgn * dd) if sgn != 0 else np.max(np.abs(dd))
                            if bad > 1e-9 * scale:
                                okm = False
                                worst = (k, float(bad))
                    ctx.check("sppchip monotone in each interval", okm, lambda: dict(desc, interval_and_excess=worst), mechanism="sppchip not monotone in an interval")
                    # interior intervals: the cubic Hermite piece with the PCHIP (Fritsch-Carlson) slopes, as scipy builds them
                    sel = (mm > xs[1]) & (mm < xs[-2])
                    if N >= 6 and np.any(sel):
                        refp = PchipInterpolator(xs, nodes.real)(mm[sel]) + 1j * PchipInterpolator(xs, nodes.imag)(mm[sel])
                        dvp = adev(got[sel] if len(got) == len(sel) else np.asarray(R(T(mm[sel]))), refp, scale)
                        ctx.dev("more models: sppchip interior vs scipy PCHIP", dvp, 1e-5)
                        ctx.check(MON, dvp < 1e-5, lambda: dict(desc, dev=dvp), mechanism=mech + " (interior intervals vs PCHIP)")
        except Exception as e:
            ctx.violation(MON, ctx.exc_witness(e, **{k: v for k, v in desc.items()}), mechanism="model raises: " + model + (" (with_bound)" if desc.get("with_bound") else ""))
            continue
        ctx.case(("more", model, i), nontrivial=True)
        ctx.covered("model", model)
        if rnd == 0 and ctx.shard == i % max(1, ctx.nshards):
            ctx.sample({"section": "more_models", "model": model, "m": m[:2]}, limit=8)
    try:
        import shutil

        shutil.rmtree(tmpd, ignore_errors=True)
    except Exception:
        pass
