"""G-card: seeded generator of decay cards (the dictionary form accepted by ConfigLoader).

Every card gets globally unique particle names (tag), because the library caches CG
matrices by particle names (DESIGN section 2).  A card is accepted when the reference
selection rules leave every chosen chain allowed.
"""
import copy
import itertools
import math

import numpy as np

from ..oracle.selection import num, ref_ls

FINAL_MASSES = [0.13957, 0.49368, 0.93827, 1.0, 1.86, 0.5]


def jstr(j2):
    return j2 // 2 if j2 % 2 == 0 else "%d/2" % j2


def pairings(n):
    """all topologies of n finals as nested tuples, e.g. ((0,1),2) ; returns list of trees (tuple nesting of ints)"""
    items = list(range(n))

    def trees(xs):
        if len(xs) == 1:
            return [xs[0]]
        out = []
        first = xs[0]
        rest = xs[1:]
        # split xs into two non-empty groups, first in the left group (unordered splits)
        for r in range(0, len(rest) + 1):
            for comb in itertools.combinations(rest, r):
                left = [first] + list(comb)
                right = [x for x in rest if x not in comb]
                if not right:
                    continue
                for lt in trees(left):
                    for rt in trees(right):
                        out.append((lt, rt))
        return out

    # top-level: the root's two children
    return trees(items)


def leaves(t):
    if isinstance(t, int):
        return [t]
    return leaves(t[0]) + leaves(t[1])


def inner_nodes(t, is_root=True):
    """list of sub-trees that are intermediate resonances (not root, not leaves)"""
    if isinstance(t, int):
        return []
    out = [] if is_root else [t]
    return out + inner_nodes(t[0], False) + inner_nodes(t[1], False)


class CardGen:
    def __init__(self, rng, tag, nbody=3, final_j2=(0, 0, 1, 2), top_j2=None, res_j2_int=(0, 2, 2, 4), res_j2_half=(1, 3, 3, 5),
                 n_chains=(1, 3), models=("default",), p_break_prob=0.5, massless_prob=0.0, res_per_slot=(1, 1),
                 decay_opts_prob=0.3, fixed_finals=None, fixed_top=None, top_spins=None, allow_forbidden=False, decay_models=None):
        self.rng = rng
        self.tag = tag
        self.n = nbody
        self.final_j2 = final_j2
        self.top_j2 = top_j2
        self.res_j2_int = res_j2_int
        self.res_j2_half = res_j2_half
        self.n_chains = n_chains
        self.models = models
        self.p_break_prob = p_break_prob
        self.massless_prob = massless_prob
        self.res_per_slot = res_per_slot
        self.decay_opts_prob = decay_opts_prob
        self.fixed_finals = fixed_finals
        self.fixed_top = fixed_top
        self.top_spins = top_spins
        self.allow_forbidden = allow_forbidden
        self.decay_models = decay_models  # registered two-body decay models other than the default LS one (helicity_full, helicity_parity, gls-bf, ...)

    def name(self, base):
        return "%s%s" % (base, self.tag)

    def make(self, max_try=200):
        for _ in range(max_try):
            c = self._try()
            if c is not None:
                return c
        raise RuntimeError("card generator: no acceptable card in %d tries" % max_try)

    def _try(self):
        rng = self.rng
        n = self.n
        fnames = [self.name("F%s" % "BCDEFG"[i]) for i in range(n)]
        if self.fixed_finals is not None:
            fj2, fp, fm = [list(x) for x in zip(*self.fixed_finals)]
        else:
            fj2 = [int(rng.choice(self.final_j2)) for _ in range(n)]
            fp = [int(rng.choice([-1, 1])) for _ in range(n)]
            fm = [float(rng.choice(FINAL_MASSES)) for _ in range(n)]
        massless = [False] * n
        for i in range(n):
            if self.fixed_finals is None and fj2[i] == 2 and rng.random() < self.massless_prob:
                massless[i] = True
                fm[i] = 0.0
        ferm = sum(fj2) % 2
        if self.fixed_top is not None:
            tj2, tp = self.fixed_top
            if tj2 % 2 != ferm:
                return None
        else:
            pool = self.top_j2 if self.top_j2 is not None else (0, 1, 2, 3, 2, 0)
            cands = [j for j in pool if j % 2 == ferm]
            if not cands:
                return None
            tj2 = int(rng.choice(cands))
            tp = int(rng.choice([-1, 1]))
        m_top = sum(fm) + float(rng.uniform(0.8, 3.0))
        tname = self.name("TA")
        trees = pairings(n)
        k_lo, k_hi = self.n_chains
        n_ch = int(rng.integers(k_lo, min(k_hi, len(trees)) + 1))
        chosen = [trees[i] for i in rng.choice(len(trees), size=n_ch, replace=False)]

        particles = {}
        decays = {}
        meta_chains = []
        minmass = lambda t: sum(fm[i] for i in leaves(t))
        res_count = [0]

        def node_name(t):
            return "R" + "".join("BCDEFG"[i] for i in sorted(leaves(t)))

        def jp_of(x):
            return x["j2"], x["p"]

        ok = True
        slot_res = {}  # slot key (sorted leaves) -> list of resonance dicts (shared between chains using same slot)
        for tree in chosen:
            # choose one resonance per inner node (slot); several resonances per slot expand to several chains
            inner = inner_nodes(tree)
            for t in inner:
                key = tuple(sorted(leaves(t)))
                if key in slot_res:
                    continue
                lo, hi = self.res_per_slot
                nres = int(rng.integers(lo, hi + 1))
                lst = []
                fer = sum(fj2[i] for i in key) % 2
                for r in range(nres):
                    j2 = int(rng.choice(self.res_j2_half if fer else self.res_j2_int))
                    p = int(rng.choice([-1, 1]))
                    lo_m = minmass(t)
                    hi_m = m_top - (sum(fm) - lo_m)
                    u = rng.random()
                    if u < 0.8:
                        m0 = float(rng.uniform(lo_m + 0.05 * (hi_m - lo_m), hi_m - 0.05 * (hi_m - lo_m)))
                    elif u < 0.9:
                        m0 = float(lo_m - rng.uniform(0.02, 0.2))  # below threshold
                        if m0 < 0.1:
                            m0 = float(lo_m + 0.5 * (hi_m - lo_m))
                    else:
                        m0 = float(hi_m + rng.uniform(0.02, 0.3))  # above the window
                    g0 = float(rng.uniform(0.03, 0.3))
                    res_count[0] += 1
                    nm = self.name("%s%d" % (node_name(t), r))
                    lst.append({"name": nm, "j2": j2, "p": p, "m0": m0, "g0": g0, "model": str(rng.choice(self.models)), "slot": key})
                slot_res[key] = lst

        # per-decay options & validity
        dec_opts = {}

        def decay_ok(mother, d1, d2, force_break=None):
            """choose p_break so that the decay has >=1 ls; returns (ok, p_break)"""
            (ja, pa), (jb, pb), (jc, pc) = mother, d1, d2
            strong = ref_ls(ja, jb, jc, pa, pb, pc, False)
            weak = ref_ls(ja, jb, jc, pa, pb, pc, True)
            if not weak:
                return False, None
            want_break = rng.random() < self.p_break_prob
            if want_break or not strong:
                return True, True
            return True, False

        # Build decay table: for every chosen tree, every combination of resonances in its slots
        decay_entries = {}  # mother slot-name -> list of [d1, d2, opts]
        part_cfg = {}
        for tree in chosen:
            def visit(t, is_root):
                nonlocal ok
                if isinstance(t, int):
                    return
                a, b = t
                mname = tname if is_root else self.name(node_name(t))
                names = []
                for ch in (a, b):
                    names.append(fnames[ch] if isinstance(ch, int) else self.name(node_name(ch)))
                key = (mname, tuple(names))
                if key not in dec_opts:
                    dec_opts[key] = None
                visit(a, False)
                visit(b, False)
            visit(tree, True)

        # the same p_break option applies to all candidate resonances of a slot-decay (one config entry);
        # so require validity for every combination
        def cand(t, is_root):
            if isinstance(t, int):
                return [{"name": fnames[t], "j2": fj2[t], "p": fp[t]}]
            if is_root:
                return [{"name": tname, "j2": tj2, "p": tp}]
            return slot_res[tuple(sorted(leaves(t)))]

        struct = {}  # (mother slot name, (d slot names)) -> tree info
        for tree in chosen:
            def visit2(t, is_root):
                if isinstance(t, int):
                    return
                a, b = t
                mname = tname if is_root else self.name(node_name(t))
                dn = tuple(fnames[ch] if isinstance(ch, int) else self.name(node_name(ch)) for ch in (a, b))
                struct[(mname, dn)] = (t, is_root)
                visit2(a, False)
                visit2(b, False)
            visit2(tree, True)

        for (mname, dn), (t, is_root) in struct.items():
            a, b = t
            pb_choice = None
            for M in cand(t, is_root):
                for A in cand(a, False):
                    for B in cand(b, False):
                        good, pb = decay_ok(jp_of(M), jp_of(A), jp_of(B))
                        if not good:
                            if self.allow_forbidden:
                                continue
                            return None
                        if pb:
                            pb_choice = True
                        elif pb_choice is None:
                            pb_choice = False
            opts = {}
            if self.allow_forbidden:
                pb_choice = bool(rng.random() < self.p_break_prob)
            if pb_choice:
                opts["p_break"] = True
            if rng.random() < self.decay_opts_prob:
                extra = rng.choice(["has_barrier_factor", "barrier_factor_norm", "no_q0", "helicity_inner_full", "below_threshold", "has_bprime"])
                if extra == "has_barrier_factor":
                    opts["has_barrier_factor"] = False
                elif extra == "has_bprime":
                    opts["has_bprime"] = False
                elif extra == "below_threshold" and is_root:
                    pass
                else:
                    opts[str(extra)] = True
            if self.decay_models and rng.random() < 0.6:
                opts["model"] = str(rng.choice(self.decay_models))
            dec_opts[(mname, dn)] = opts

        # assemble config
        decay_cfg = {}
        for (mname, dn), opts in dec_opts.items():
            entry = list(dn) + ([dict(opts)] if opts else [])
            decay_cfg.setdefault(mname, []).append(entry)
        for k, v in list(decay_cfg.items()):
            if k != tname and len(v) == 1:
                decay_cfg[k] = v[0]
        particle_cfg = {"$top": {tname: {"J": jstr(tj2), "P": tp, "mass": m_top}}, "$finals": {}}
        if self.top_spins is not None:
            particle_cfg["$top"][tname]["spins"] = list(self.top_spins)
        for i in range(n):
            d = {"J": jstr(fj2[i]), "P": fp[i], "mass": fm[i]}
            if massless[i]:
                d["spins"] = [-1, 1]
            particle_cfg["$finals"][fnames[i]] = d
        for key, lst in slot_res.items():
            slot = self.name("R" + "".join("BCDEFG"[i] for i in key))
            particle_cfg[slot] = [r["name"] for r in lst]
            for r in lst:
                d = {"J": jstr(r["j2"]), "P": r["p"], "mass": r["m0"], "width": r["g0"]}
                if r["model"] != "default":
                    d["model"] = r["model"]
                particle_cfg[r["name"]] = d
        config = {"decay": decay_cfg, "particle": particle_cfg, "data": {"dat_order": list(fnames)}}
        # reference chain list (expanded over candidates), with the decays of every chain and the selection-rule verdict
        byname = {r["name"]: r for lst in slot_res.values() for r in lst}
        ref_chains = []
        for tree in chosen:
            slots = [tuple(sorted(leaves(t))) for t in inner_nodes(tree)]
            for combo in itertools.product(*[slot_res[s] for s in slots]):
                pick = {s: r for s, r in zip(slots, combo)}

                def qn(t, is_root):
                    if isinstance(t, int):
                        return fnames[t], fj2[t], fp[t]
                    if is_root:
                        return tname, tj2, tp
                    r = pick[tuple(sorted(leaves(t)))]
                    return r["name"], r["j2"], r["p"]

                decs = []
                allowed = True

                def walk(t, is_root):
                    nonlocal allowed
                    if isinstance(t, int):
                        return
                    m_, a_, b_ = qn(t, is_root), qn(t[0], False), qn(t[1], False)
                    mname = tname if is_root else self.name(node_name(t))
                    dn = tuple(fnames[ch] if isinstance(ch, int) else self.name(node_name(ch)) for ch in t)
                    pbreak = bool(dec_opts[(mname, dn)].get("p_break", False))
                    if not ref_ls(m_[1], a_[1], b_[1], m_[2], a_[2], b_[2], pbreak):
                        allowed = False
                    decs.append((m_[0], tuple(sorted((a_[0], b_[0])))))
                    walk(t[0], False)
                    walk(t[1], False)

                walk(tree, True)
                ref_chains.append({"tree": tree, "res": [r["name"] for r in combo], "decays": sorted(decs), "allowed": allowed})
        if not any(c["allowed"] for c in ref_chains):
            return None
        meta = {
            "n": n, "top": {"name": tname, "j2": tj2, "p": tp, "mass": m_top},
            "finals": [{"name": fnames[i], "j2": fj2[i], "p": fp[i], "mass": fm[i], "massless": massless[i]} for i in range(n)],
            "trees": [repr(t) for t in chosen], "resonances": [r for lst in slot_res.values() for r in lst],
            "n_chains": sum(1 for c in ref_chains if c["allowed"]), "ref_chains": ref_chains, "dec_opts": {"%s->%s" % (k[0], "+".join(k[1])): v for k, v in dec_opts.items()},
            "spinning": any(j > 0 for j in fj2) or tj2 > 0 or any(r["j2"] > 0 for lst in slot_res.values() for r in lst),
        }
        return {"config": config, "meta": meta}


def card_digest_key(card):
    m = card["meta"]
    return (m["n"], m["top"]["j2"], m["top"]["p"], tuple((f["j2"], f["p"]) for f in m["finals"]), tuple(m["trees"]),
            tuple((r["j2"], r["p"], r["model"]) for r in m["resonances"]), tuple(sorted((k, tuple(sorted(v.items()))) for k, v in m["dec_opts"].items())))


def short(card):
    m = card["meta"]
    return {
        "top": "J2=%d P=%+d" % (m["top"]["j2"], m["top"]["p"]),
        "finals": ["J2=%d P=%+d m=%.3f" % (f["j2"], f["p"], f["mass"]) for f in m["finals"]],
        "trees": m["trees"],
        "resonances": ["%s J2=%d P=%+d m0=%.3f g0=%.3f %s" % (r["name"], r["j2"], r["p"], r["m0"], r["g0"], r["model"]) for r in m["resonances"]],
        "dec_opts": m["dec_opts"],
    }


# ---------------------------------------------------------------------- loading helpers
def load(card, extra_data=None, quiet=True):
    """ConfigLoader from the card dict (deep-copied by the loader)."""
    import contextlib
    import io

    from tf_pwa.config_loader import ConfigLoader

    cfg = copy.deepcopy(card["config"])
    if extra_data:
        cfg["data"].update(extra_data)
    if quiet:
        with contextlib.redirect_stdout(io.StringIO()):
            c = ConfigLoader(cfg)
            c.get_amplitude()
    else:
        c = ConfigLoader(cfg)
        c.get_amplitude()
    return c


def random_params(amp, key):
    """G-par: values by NAME for all non mass/width parameters; `key` is a tuple of ints.  The value depends only on
    (key, parameter name), so two models with the same parameter names get identical values."""
    p = amp.get_params()
    out = {}
    for k in sorted(p):
        if k.endswith("_mass") or k.endswith("_width"):
            continue
        r = np.random.default_rng(list(key) + [hash_name(k)])
        if k.endswith("r"):
            out[k] = float(r.uniform(0.4, 1.6))
        elif k.endswith("i"):
            out[k] = float(r.uniform(-math.pi, math.pi))
        else:
            out[k] = float(p[k])
    return out


def hash_name(s):
    import zlib

    return zlib.crc32(s.encode())


def events(card, n, rng, classes=True, lab_beta=None):
    """list of (n,4) arrays in the order of card finals, from the independent generator"""
    from ..oracle import kin

    m = card["meta"]
    ps = kin.gen_nbody(m["top"]["mass"], [f["mass"] for f in m["finals"]], n, rng, classes=classes)
    if lab_beta is not None:
        ps = kin.lab_boost_events(ps, lab_beta)
    return ps


def density(config, ps, **extra):
    """the property's observation point: ConfigLoader.data.cal_angle(p4) -> get_amplitude()(data); extra = per-event columns
    (e.g. charge_conjugation)"""
    import contextlib
    import io

    with contextlib.redirect_stdout(io.StringIO()):
        data = config.data.cal_angle([np.ascontiguousarray(p) for p in ps], **extra)
        for k, v in extra.items():  # as SimpleData.load_data does with its extra columns
            data[k] = v
        amp = config.get_amplitude()
        return np.asarray(amp(data)), data


# ---------------------------------------------------------------------------------------------------------------------------
# Known declaration-order dependence of the library (recorded findings, see known_findings.json): per-particle state taken from
# the FIRST declared decay.  Both C19 (key / candidate order) and C02 (chain order) can meet it; the class of a card is decided
# from its structure only (never from the outcome).
RUNNING_WIDTH_MODELS = ("default", "BWR", "BWR2", "BWR_below", "BWR_normal", "BWR_coupling", "GS_rho", "BWR_LS", "BWR_LS2")
KF_BWL = " [resonance with decay modes of different minimal l, default bw_l]"
KF_CREATOR = " [below_threshold decay of a resonance with several creating decays (parent or sibling candidates)]"


def declaration_order_class(meta):
    """'' or the key of the recorded order-dependence class the card belongs to."""
    from ..oracle.selection import ref_ls

    qn = {f["name"]: (f["j2"], f["p"]) for f in meta["finals"]}
    qn.update({r["name"]: (r["j2"], r["p"]) for r in meta["resonances"]})
    model = {r["name"]: r["model"] for r in meta["resonances"]}
    modes, creators = {}, {}
    for c in meta["ref_chains"]:
        for m, d in c["decays"]:
            d = list(d)
            if m in model and model[m] in RUNNING_WIDTH_MODELS:
                (ja, pa), (jb, pb), (jc, pc) = qn[m], qn[d[0]], qn[d[1]]
                for brk in (False, True):
                    lsl = ref_ls(ja, jb, jc, pa, pb, pc, brk)
                    if lsl:
                        modes.setdefault((m, brk), set()).add(min(l for l, _s in lsl))
            for x in d:
                creators.setdefault(x, set()).add((m, tuple(y for y in d if y != x)))
    if any(len(v) > 1 for v in modes.values()):
        return KF_BWL
    # slots (candidate-list names) whose decay carries below_threshold: every candidate of the slot is concerned
    bt_slots = [k.split("->")[0] for k, o in meta["dec_opts"].items() if o and o.get("below_threshold")]
    for r in meta["resonances"]:
        uses_creator = model[r["name"]] == "BWR_below" or any(_slot_of(r["name"]) == _slot_of(sl) for sl in bt_slots)
        if uses_creator and len(creators.get(r["name"], ())) > 1:
            return KF_CREATOR
    return ""


def _slot_of(name):
    """RBE0_tag / RBE_tag -> 'RBE' + tag (candidate index dropped)"""
    head, _, tail = name.partition("_")
    return head.rstrip("0123456789") + "_" + tail


def expanded_config(config, rng=None):
    """The same model with every candidate list written out as explicit decays; with rng the entries of each mother are shuffled,
    so that chains of the same topology are no longer contiguous in the declaration."""
    import copy
    import itertools

    c = copy.deepcopy(config)
    slots = {k: v for k, v in c["particle"].items() if isinstance(v, list)}
    newdec = {}
    for mother, entries in c["decay"].items():
        ents = entries if isinstance(entries[0], list) else [entries]
        for m_ in slots.get(mother, [mother]):
            per_entry = []
            for ent in ents:
                names_ = [x for x in ent if not isinstance(x, dict)]
                optd = [x for x in ent if isinstance(x, dict)]
                per_entry.append([list(combo) + copy.deepcopy(optd) for combo in itertools.product(*[slots.get(x, [x]) for x in names_])])
            if rng is None:
                newdec[m_] = [e for grp in per_entry for e in grp]
            else:
                # round robin over the original entries (one entry = one topology): A->R1 D, A->S1 C, A->R2 D, ... ; the
                # order inside an entry and of the entries is random
                per_entry = [[grp[j] for j in rng.permutation(len(grp))] for grp in per_entry]
                per_entry = [per_entry[j] for j in rng.permutation(len(per_entry))]
                merged = []
                for k in range(max(len(g) for g in per_entry)):
                    merged += [g[k] for g in per_entry if k < len(g)]
                newdec[m_] = merged
    c["decay"] = newdec
    for k in slots:
        del c["particle"][k]
    return c
