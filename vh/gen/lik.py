"""Likelihood workloads: toy samples with weights, model selection by configuration, reference NLL formulas."""
import contextlib
import copy
import io

import numpy as np

from . import cards

# name -> (data-section options, kind)   kind: "bg" = background sample with negative weights, "cfit" = bg_value/eff_value columns
MODELS = {
    "default": ({}, "bg"),
    "extended": ({"extended": True}, "bg"),
    "cfit": ({"model": "cfit", "bg_frac": 0.23}, "cfit"),
    "cfit_cached": ({"model": "cfit", "bg_frac": 0.23, "cached_amp": True}, "cfit"),
    "cfit_extended": ({"model": "cfit", "bg_frac": 0.23, "extended": True}, "cfit"),
    "cached_int": ({"cached_int": True}, "bg"),
    "cached_amp": ({"cached_amp": True}, "bg"),
    "simple": ({"model": "simple"}, "bg"),
    "simple_cfit": ({"model": "simple_cfit", "bg_frac": 0.23}, "cfit"),
}


def quiet():
    return contextlib.redirect_stdout(io.StringIO())


def weights(rng, n, kind):
    if kind == "ones":
        return None
    if kind == "positive":
        return rng.uniform(0.2, 2.0, n)
    if kind == "mixed":
        w = rng.uniform(0.2, 2.0, n)
        w[rng.random(n) < 0.15] *= -0.5
        return w
    if kind == "mixed_mild":
        # a weighted Monte-Carlo sample with some negative entries (NLO generators, background-subtracted efficiency samples)
        w = rng.uniform(0.2, 2.0, n)
        w[rng.random(n) < 0.12] *= -0.4
        return w
    if kind == "zeros":
        w = rng.uniform(0.2, 2.0, n)
        w[rng.random(n) < 0.2] = 0.0
        return w
    raise ValueError(kind)


def make_sample(cfg, card, n, rng, weight_kind="ones", cfit=False, bulk=True):
    ps = cards.events(card, n, rng, classes=not bulk)
    with quiet():
        d = cfg.data.cal_angle([np.ascontiguousarray(p) for p in ps])
    w = weights(rng, n, weight_kind)
    if w is not None:
        d["weight"] = w
    if cfit:
        d["bg_value"] = rng.uniform(0.5, 1.5, n)
        d["eff_value"] = rng.uniform(0.4, 1.0, n)
    return d


def np_w(d, n):
    w = d.get("weight", None) if d is not None else None
    return np.ones(n) if w is None else np.asarray(w, dtype=float)


def reference_nll(model, amp, data, phsp, bg, w_bkg, bg_frac=None, gauss=None, params=None):
    """The defining formula, from per-event densities obtained by ONE un-batched eager call.
    Returns (value, min log argument) so that callers can skip cases below the clip_log knee."""
    from tf_pwa.data import data_shape

    f_d = np.asarray(amp(data), dtype=float)
    f_mc = np.asarray(amp(phsp), dtype=float)
    nd, nmc = len(f_d), len(f_mc)
    w = np_w(data, nd)
    v = np_w(phsp, nmc)
    if bg is not None:
        f_b = np.asarray(amp(bg), dtype=float)
        wb = bg.get("weight", None)
        wb = -w_bkg * np.ones(len(f_b)) if wb is None else np.asarray(wb, dtype=float)
        w_all = np.concatenate([w, wb])
        f_all = np.concatenate([f_d, f_b])
    else:
        w_all, f_all = w, f_d
    alpha = np.sum(w_all) / np.sum(w_all**2)
    sw = np.sum(w_all)
    I = np.sum(v * f_mc) / np.sum(v)
    min_arg = None
    if model in ("default", "cached_int", "cached_amp", "simple"):
        val = -alpha * (np.sum(w_all * np.log(f_all)) - sw * np.log(I))
        min_arg = min(np.min(f_all), I)
    elif model == "extended":
        val = -alpha * np.sum(w_all * np.log(f_all)) + alpha * sw * I
        min_arg = np.min(f_all)
    elif model in ("cfit", "cfit_cached", "cfit_extended", "simple_cfit"):
        eps_d, b_d = np.asarray(data["eff_value"]), np.asarray(data["bg_value"])
        eps_mc, b_mc = np.asarray(phsp["eff_value"]), np.asarray(phsp["bg_value"])
        I_sig = np.sum(v * eps_mc * f_mc) / np.sum(v)
        I_bg = np.sum(v * b_mc) / np.sum(v)
        P = (1 - bg_frac) * eps_d * f_d / I_sig + bg_frac * b_d / I_bg
        val = -alpha * np.sum(w * np.log(P))
        min_arg = np.min(P)
        if model == "cfit_extended":
            lam = I_sig / (1 - bg_frac)
            val = val - alpha * np.sum(w) * np.log(lam) + lam
            min_arg = min(min_arg, lam)
    else:
        raise ValueError(model)
    if gauss:
        for name, (mu, sigma) in gauss.items():
            val += (params[name] - mu) ** 2 / (2 * sigma**2)
    return float(val), float(min_arg)
