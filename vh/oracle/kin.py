"""Independent NumPy kinematics: boosts, rotations, two-body momenta, an n-body event
generator by sequential two-body decays (NOT the library's phasespace), and the exact
n-body phase-space mass spectra used as distribution references.

Four-vectors are (..., 4) arrays ordered (E, px, py, pz).
"""
import math

import numpy as np

METRIC = np.array([1.0, -1.0, -1.0, -1.0])


def mdot(a, b):
    return np.sum(a * b * METRIC, axis=-1)


def mass2(p):
    return mdot(p, p)


def mass(p):
    return np.sqrt(np.abs(mass2(p)))


def kallen(a, b, c):
    return a * a + b * b + c * c - 2 * a * b - 2 * a * c - 2 * b * c


def two_body_q(m0, m1, m2):
    """breakup momentum, 0 below threshold"""
    lam = (m0 * m0 - (m1 + m2) ** 2) * (m0 * m0 - (m1 - m2) ** 2)
    return np.sqrt(np.maximum(lam, 0.0)) / (2 * m0)


def boost(p, beta):
    """active boost of p by velocity beta (..., 3): a particle at rest acquires velocity beta."""
    beta = np.broadcast_to(beta, p.shape[:-1] + (3,))
    b2 = np.sum(beta * beta, axis=-1)
    g = 1.0 / np.sqrt(1.0 - b2)
    bp = np.sum(beta * p[..., 1:], axis=-1)
    with np.errstate(divide="ignore", invalid="ignore"):
        g2 = np.where(b2 > 1e-300, (g - 1.0) / np.where(b2 > 1e-300, b2, 1.0), 0.0)
    e = g * (p[..., 0] + bp)
    v = p[..., 1:] + (g2 * bp)[..., None] * beta + (g * p[..., 0])[..., None] * beta
    return np.concatenate([e[..., None], v], axis=-1)


def boost_to_rest_of(p, frame):
    """p seen in the rest frame of `frame`"""
    return boost(p, -frame[..., 1:] / frame[..., :1])


def rotation_matrix_from_quat(q):
    a, b, c, d = q / np.linalg.norm(q)
    return np.array(
        [
            [a * a + b * b - c * c - d * d, 2 * (b * c - a * d), 2 * (b * d + a * c)],
            [2 * (b * c + a * d), a * a - b * b + c * c - d * d, 2 * (c * d - a * b)],
            [2 * (b * d - a * c), 2 * (c * d + a * b), a * a - b * b - c * c + d * d],
        ]
    )


def rotate(p, R):
    v = p[..., 1:] @ R.T
    return np.concatenate([p[..., :1], v], axis=-1)


def parity(p):
    return np.concatenate([p[..., :1], -p[..., 1:]], axis=-1)


def random_rotation(rng, kind=None):
    kind = kind if kind is not None else rng.choice(["quat", "axis90", "axis180", "quat", "quat"])
    if kind == "quat":
        return rotation_matrix_from_quat(rng.normal(size=4))
    ax = int(rng.integers(3))
    ang = math.pi / 2 if kind == "axis90" else math.pi
    q = np.zeros(4)
    q[0] = math.cos(ang / 2)
    q[1 + ax] = math.sin(ang / 2)
    return rotation_matrix_from_quat(q)


def random_direction(rng, n=None):
    v = rng.normal(size=(3,) if n is None else (n, 3))
    return v / np.linalg.norm(v, axis=-1, keepdims=True)


def random_velocity(rng, speeds=(1e-8, 0.1, 0.7, 0.99)):
    s = float(rng.choice(speeds))
    if rng.random() < 0.25:
        d = np.zeros(3)
        d[int(rng.integers(3))] = rng.choice([-1.0, 1.0])
    else:
        d = random_direction(rng)
    return s * d


# ------------------------------------------------------------------ event generation
def two_body_decay(parent, m1, m2, rng, cos=None, phi=None):
    """decay each parent (n,4) isotropically into masses m1, m2 (scalars or (n,)); returns p1, p2 in the parent's frame"""
    n = parent.shape[0]
    m0 = mass(parent)
    q = two_body_q(m0, m1, m2)
    cos = rng.uniform(-1, 1, n) if cos is None else cos
    phi = rng.uniform(-math.pi, math.pi, n) if phi is None else phi
    sin = np.sqrt(1 - cos * cos)
    d = np.stack([sin * np.cos(phi), sin * np.sin(phi), cos], axis=-1)
    e1 = np.sqrt(m1 * m1 + q * q)
    e2 = np.sqrt(m2 * m2 + q * q)
    p1 = np.concatenate([e1[:, None] if np.ndim(e1) else np.full((n, 1), e1), q[:, None] * d], axis=-1)
    p2 = np.concatenate([e2[:, None] if np.ndim(e2) else np.full((n, 1), e2), -q[:, None] * d], axis=-1)
    beta = parent[..., 1:] / parent[..., :1]
    return boost(p1, beta), boost(p2, beta)


def gen_nbody(m0, masses, n, rng, classes=True):
    """n events of m0 -> masses (list), parent at rest.  Sequential decays M -> (rest) + m_k with the
    intermediate masses drawn uniformly in their allowed windows (NOT flat phase space; only physical).
    With classes=True a few events are forced to special configurations (near-threshold sub-systems,
    boundary masses, collinear decays)."""
    masses = list(map(float, masses))
    k = len(masses)
    parent = np.zeros((n, 4))
    parent[:, 0] = m0
    out = [None] * k
    cur = parent
    cur_m = np.full(n, float(m0))
    for i in range(k - 1, 1, -1):
        lo = sum(masses[:i])
        hi = cur_m - masses[i]
        u = rng.uniform(0, 1, n)
        if classes:
            sel = rng.random(n)
            u = np.where(sel < 0.06, 1e-6 * rng.random(n), u)  # sub-system at threshold
            u = np.where((sel >= 0.06) & (sel < 0.12), 1 - 1e-6 * rng.random(n), u)  # spectator at rest
        mi = lo + u * (hi - lo)
        cos = None
        if classes:
            cos = rng.uniform(-1, 1, n)
            sel = rng.random(n)
            cos = np.where(sel < 0.04, 1.0 - 1e-9, cos)
            cos = np.where((sel >= 0.04) & (sel < 0.08), -1.0 + 1e-9, cos)
        sub, pk = two_body_decay(cur, mi, masses[i], rng, cos=cos)
        out[i] = pk
        cur = sub
        cur_m = mi
    p0, p1 = two_body_decay(cur, masses[0], masses[1], rng)
    out[0], out[1] = p0, p1
    return out


def lab_boost_events(ps, beta):
    return [boost(p, beta) for p in ps]


# ------------------------------------------------------------------ exact phase-space spectra
def phsp_mass_density(m0, masses, grid=400):
    """Return function rho(M) ∝ dPhi_n/dM_{12..k} for the sub-system of the first k=n-1 particles in
    m0 -> masses (flat LIPS):  rho(M) = q(m0; M, m_n) * R_{n-1}(M) where R_k is the k-body phase-space
    volume as function of its mass, computed by recursive quadrature."""
    masses = list(map(float, masses))

    def volume_fn(ms):
        # returns callable R(M) for k-body phase space of masses ms (up to a constant)
        if len(ms) == 2:
            return lambda M: two_body_q(M, ms[0], ms[1]) / M
        inner = volume_fn(ms[:-1])
        lo = sum(ms[:-1])

        def R(M):
            M = np.atleast_1d(M).astype(float)
            out = np.zeros_like(M)
            for j, Mj in enumerate(M):
                hi = Mj - ms[-1]
                if hi <= lo:
                    continue
                # Gauss-Legendre in the sub-mass with sqrt endpoint substitution
                x, w = np.polynomial.legendre.leggauss(48)
                t = 0.5 * (x + 1)
                # substitution mu = lo + (hi-lo) * (3t^2-2t^3) flattens sqrt endpoints
                s = 3 * t * t - 2 * t**3
                ds = 6 * t - 6 * t * t
                mu = lo + (hi - lo) * s
                val = two_body_q(Mj, mu, ms[-1]) / Mj * inner(mu) * 2 * mu
                out[j] = np.sum(0.5 * w * ds * val) * (hi - lo)
            return out

        return R

    Rk = volume_fn(masses[:-1]) if len(masses) > 2 else None

    def rho(M):
        M = np.atleast_1d(M).astype(float)
        if Rk is None:
            raise ValueError("need n>=3")
        return two_body_q(m0, M, masses[-1]) * Rk(M) * 2 * M

    return rho


def selftest():
    rng = np.random.default_rng(0)
    ps = gen_nbody(5.0, [0.5, 0.14, 1.0, 0.3], 2000, rng)
    tot = sum(ps)
    assert np.allclose(tot[:, 0], 5.0) and np.allclose(tot[:, 1:], 0, atol=1e-12)
    for p, m in zip(ps, [0.5, 0.14, 1.0, 0.3]):
        assert np.allclose(mass2(p), m * m, atol=1e-10)
    v = random_velocity(rng)
    b = boost(ps[0], v)
    assert np.allclose(boost(b, -v), ps[0], atol=1e-9 / (1 - v @ v))
    assert np.allclose(mass2(b), mass2(ps[0]), atol=1e-8 / (1 - v @ v))
    R = random_rotation(rng, "quat")
    assert np.allclose(R @ R.T, np.eye(3)) and abs(np.linalg.det(R) - 1) < 1e-12
    # 3-body: dPhi/dm12 ∝ q(m0;m12,m3) q(m12;m1,m2)  (times 2 m12 / m12) -- compare
    rho = phsp_mass_density(3.0, [0.5, 0.6, 0.7])
    M = np.array([1.3, 1.8, 2.2])
    ref = two_body_q(3.0, M, 0.7) * two_body_q(M, 0.5, 0.6) / M * 2 * M
    assert np.allclose(rho(M), ref)
    return True


if __name__ == "__main__":
    print(selftest())


# ------------------------------------------------------------------ general LIPS volumes (vectorised quadrature)
_GL_X, _GL_W = np.polynomial.legendre.leggauss(40)


def lips_volume(M, masses):
    """k-body Lorentz-invariant phase-space volume V_k(M; m_1..m_k) up to a constant factor per k:
    V_2 = q(M;m1,m2)/M ;  V_k = int dmu 2 mu V_{k-1}(mu; m_1..m_{k-1}) q(M; mu, m_k)/M.
    M and every mass may be arrays broadcastable against each other."""
    M = np.asarray(M, dtype=float)
    masses = [np.asarray(x, dtype=float) for x in masses]
    if len(masses) == 2:
        return two_body_q(M, masses[0], masses[1]) / M
    lo = sum(masses[:-1])
    hi = M - masses[-1]
    span = np.maximum(hi - lo, 0.0)
    t = 0.5 * (_GL_X + 1)
    s = 3 * t * t - 2 * t**3  # flattens the sqrt end points
    ds = 6 * t - 6 * t * t
    lo_e = np.expand_dims(np.broadcast_to(lo, np.broadcast(lo, M).shape), -1)
    span_e = np.expand_dims(np.broadcast_to(span, np.broadcast(lo, M).shape), -1)
    mu = lo_e + span_e * s
    sub = lips_volume(mu, [np.expand_dims(np.broadcast_to(x, np.broadcast(x, M).shape), -1) if np.ndim(x) or np.ndim(M) else x for x in masses[:-1]])
    Me = np.expand_dims(np.broadcast_to(M, np.broadcast(lo, M).shape), -1)
    mk = np.expand_dims(np.broadcast_to(masses[-1], np.broadcast(lo, M).shape), -1)
    val = 2 * mu * sub * two_body_q(Me, mu, mk) / Me
    return np.sum(0.5 * _GL_W * ds * val, axis=-1) * span_e[..., 0]


def subsystem_mass_density(m0, masses, subset):
    """un-normalised density of the invariant mass of the particles in `subset` (indices) for flat n-body phase space"""
    inside = [masses[i] for i in subset]
    outside = [masses[i] for i in range(len(masses)) if i not in subset]

    def rho(Mv):
        Mv = np.asarray(Mv, dtype=float)
        v_in = lips_volume(Mv, inside) if len(inside) >= 2 else np.ones_like(Mv)
        if len(outside) == 0:
            raise ValueError
        rest = [Mv] + outside
        v_out = lips_volume(np.full_like(Mv, m0), rest) if len(rest) >= 2 else np.ones_like(Mv)
        return 2 * Mv * v_in * v_out

    return rho
