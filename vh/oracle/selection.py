"""Brute-force reference for (l,s) selection rules and helicity-amplitude counting (doubled spins)."""


def num(x2):
    return x2 // 2 if x2 % 2 == 0 else x2 / 2.0


def ref_ls(ja2, jb2, jc2, pa, pb, pc, p_break, ca=None):
    out = []
    if (ja2 + jb2 + jc2) % 2:
        return out
    for s2 in range(abs(jb2 - jc2), jb2 + jc2 + 1, 2):
        for l in range(0, (ja2 + s2) // 2 + 2):
            l2 = 2 * l
            if not (abs(l2 - s2) <= ja2 <= l2 + s2):
                continue
            if (l2 + s2 + ja2) % 2:
                continue
            if not p_break and pa != pb * pc * (-1) ** l:
                continue
            if ca is not None:
                if s2 % 2:
                    continue
                if ca != (-1) ** (l + s2 // 2):
                    continue
            out.append((l, num(s2)))
    return out


def n_indep_hel(ja2, jb2, jc2, pa, pb, pc, p_break):
    pairs = [(b, c) for b in range(-jb2, jb2 + 1, 2) for c in range(-jc2, jc2 + 1, 2) if abs(b - c) <= ja2]
    if p_break:
        return len(pairs)
    n00 = 1 if (0, 0) in pairs else 0
    eta = pa * pb * pc * (-1) ** ((ja2 - jb2 - jc2) // 2)
    return (len(pairs) - n00) // 2 + (n00 if eta == 1 else 0)
