"""Independent reference for rotation-group functions (no tf_pwa, no sympy).

* wigner_d_weight_exact / wigner_d_exact: Wigner's formula in rational arithmetic
  (each term is sign*sqrt(Fraction)), arguments are DOUBLED spins (ints).
* wigner_d_expm: d^j(beta) = exp(-i beta J_y) from ladder operators (second,
  formula-free route).
* cg_exact: Racah's closed formula, value = sign * sqrt(Fraction).
* su2 helpers: 2x2 matrices, Euler extraction, D^j from (alpha,beta,gamma).
"""
import math
from fractions import Fraction
from functools import lru_cache

import numpy as np


def _f(n):
    if n < 0:
        raise ValueError
    return math.factorial(n)


def _sqrt_frac(fr):
    """sqrt of a non-negative Fraction to double precision."""
    if fr == 0:
        return 0.0
    n, d = fr.numerator, fr.denominator
    return math.sqrt(n) / math.sqrt(d) if n < 2**1000 and d < 2**1000 else float(Fraction(math.isqrt(n * 10**40), math.isqrt(d * 10**40)))


# ---------------------------------------------------------------- Wigner d
def wigner_d_terms(j2, m1_2, m2_2):
    """Return list of (power_of_sin_half, coefficient as (sign, Fraction under sqrt... ))

    d^j_{m1 m2}(b) = sum_k (-1)^{m1-m2+k} sqrt((j+m1)!(j-m1)!(j+m2)!(j-m2)!)
                       /((j-m1-k)!(j+m2-k)!(m1-m2+k)!k!) cos^{2j-2k-m1+m2} sin^{2k+m1-m2}
    all arguments doubled.  Returns {l: (sign, Fraction(coef^2))} with l the sine power.
    """
    assert (j2 - m1_2) % 2 == 0 and (j2 - m2_2) % 2 == 0
    jp1 = (j2 + m1_2) // 2
    jm1 = (j2 - m1_2) // 2
    jp2 = (j2 + m2_2) // 2
    jm2 = (j2 - m2_2) // 2
    dm = (m1_2 - m2_2) // 2  # m1 - m2 (integer)
    pref2 = Fraction(_f(jp1) * _f(jm1) * _f(jp2) * _f(jm2))
    out = {}
    for k in range(max(0, -dm), min(jm1, jp2) + 1):
        den = _f(jm1 - k) * _f(jp2 - k) * _f(dm + k) * _f(k)
        sign = -1 if (dm + k) % 2 else 1
        l = 2 * k + dm
        out[l] = (sign, pref2 / (den * den))
    return out


def wigner_d_weight_exact(j2):
    """Array w[l, i1, i2] (same layout as the library table) from exact arithmetic."""
    n = j2 + 1
    w = np.zeros((n, n, n))
    for i1, m1 in enumerate(range(-j2, j2 + 1, 2)):
        for i2, m2 in enumerate(range(-j2, j2 + 1, 2)):
            for l, (sign, c2) in wigner_d_terms(j2, m1, m2).items():
                w[l, i1, i2] = sign * _sqrt_frac(c2)
    return w


def wigner_d_exact(j2, beta):
    """(n,n) matrix d^j_{m1 m2}(beta), m from -j..j, via the exact weights."""
    w = wigner_d_weight_exact(j2)
    s, c = math.sin(beta / 2), math.cos(beta / 2)
    n = j2 + 1
    pw = np.array([(s**l) * (c ** (j2 - l)) for l in range(n)])
    return np.tensordot(pw, w, axes=(0, 0))


@lru_cache(maxsize=None)
def _jmats(j2):
    """(Jz, Jy) in the basis m=-j..j (ascending, same ordering as the library)."""
    j = j2 / 2.0
    ms = np.arange(-j, j + 1e-9, 1.0)
    n = len(ms)
    jp = np.zeros((n, n), dtype=complex)  # J+ |m> = sqrt(j(j+1)-m(m+1)) |m+1>
    for i, m in enumerate(ms[:-1]):
        jp[i + 1, i] = math.sqrt(j * (j + 1) - m * (m + 1))
    jm = jp.conj().T
    jy = (jp - jm) / (2j)
    jz = np.diag(ms).astype(complex)
    return jz, jy


def wigner_d_expm(j2, beta):
    from scipy.linalg import expm

    jz, jy = _jmats(j2)
    return np.real(expm(-1j * beta * jy))


def wigner_D(j2, alpha, beta, gamma):
    """D^j_{m1 m2} = e^{-i m1 alpha} d_{m1 m2}(beta) e^{-i m2 gamma} via matrix exponentials."""
    from scipy.linalg import expm

    jz, jy = _jmats(j2)
    return expm(-1j * alpha * jz) @ expm(-1j * beta * jy) @ expm(-1j * gamma * jz)


# ---------------------------------------------------------------- Clebsch-Gordan
def _tri_ok(a2, b2, c2):
    return (a2 + b2 + c2) % 2 == 0 and abs(a2 - b2) <= c2 <= a2 + b2


def cg_exact(j1_2, m1_2, j2_2, m2_2, J_2, M_2):
    """<j1 m1 j2 m2 | J M> (Condon-Shortley), all arguments doubled. Racah formula."""
    if m1_2 + m2_2 != M_2:
        return 0.0
    if not _tri_ok(j1_2, j2_2, J_2):
        return 0.0
    if abs(m1_2) > j1_2 or abs(m2_2) > j2_2 or abs(M_2) > J_2:
        return 0.0
    if (j1_2 - m1_2) % 2 or (j2_2 - m2_2) % 2 or (J_2 - M_2) % 2:
        return 0.0
    h = lambda x: x // 2
    delta = Fraction(
        _f(h(j1_2 + j2_2 - J_2)) * _f(h(j1_2 - j2_2 + J_2)) * _f(h(-j1_2 + j2_2 + J_2)),
        _f(h(j1_2 + j2_2 + J_2) + 1),
    )
    pref2 = (
        Fraction(J_2 + 1)
        * delta
        * _f(h(J_2 + M_2))
        * _f(h(J_2 - M_2))
        * _f(h(j1_2 - m1_2))
        * _f(h(j1_2 + m1_2))
        * _f(h(j2_2 - m2_2))
        * _f(h(j2_2 + m2_2))
    )
    kmin = max(0, h(j2_2 - J_2 - m1_2), h(j1_2 + m2_2 - J_2))
    kmax = min(h(j1_2 + j2_2 - J_2), h(j1_2 - m1_2), h(j2_2 + m2_2))
    s = Fraction(0)
    for k in range(kmin, kmax + 1):
        den = (
            _f(k)
            * _f(h(j1_2 + j2_2 - J_2) - k)
            * _f(h(j1_2 - m1_2) - k)
            * _f(h(j2_2 + m2_2) - k)
            * _f(h(J_2 - j2_2 + m1_2) + k)
            * _f(h(J_2 - j1_2 - m2_2) + k)
        )
        s += Fraction((-1) ** k, den)
    if s == 0:
        return 0.0
    val = _sqrt_frac(pref2 * s * s)
    return val if s > 0 else -val


# ---------------------------------------------------------------- SU(2)
def rz(a):
    return np.array([[np.exp(-0.5j * a), 0], [0, np.exp(0.5j * a)]])


def ry(b):
    c, s = math.cos(b / 2), math.sin(b / 2)
    return np.array([[c, -s], [s, c]], dtype=complex)


def bz(omega):
    return np.array([[math.exp(-omega / 2), 0], [0, math.exp(omega / 2)]], dtype=complex)


def euler_from_su2(u):
    """(alpha, beta, gamma) with u = rz(alpha) ry(beta) rz(gamma), beta in [0, pi]; alpha,gamma
    not reduced mod 2pi so that the SIGN of u is reproduced."""
    cb = np.real(u[0, 0] * u[1, 1] + u[0, 1] * u[1, 0])
    beta = math.acos(min(1.0, max(-1.0, cb)))
    a11 = np.angle(u[1, 1]) if abs(u[1, 1]) > 1e-300 else 0.0
    a10 = np.angle(u[1, 0]) if abs(u[1, 0]) > 1e-300 else 0.0
    return a11 + a10, beta, a11 - a10


def random_su2(rng):
    q = rng.normal(size=4)
    q /= np.linalg.norm(q)
    a, b, c, d = q
    return np.array([[a + 1j * b, c + 1j * d], [-c + 1j * d, a - 1j * b]])


def selftest():
    # textbook values
    assert abs(cg_exact(1, 1, 1, -1, 2, 0) - math.sqrt(0.5)) < 1e-15
    assert abs(cg_exact(1, 1, 1, -1, 0, 0) - math.sqrt(0.5)) < 1e-15
    assert abs(cg_exact(1, -1, 1, 1, 0, 0) + math.sqrt(0.5)) < 1e-15
    assert abs(cg_exact(2, 0, 2, 0, 4, 0) - math.sqrt(2 / 3)) < 1e-15
    assert abs(cg_exact(2, 0, 2, 0, 0, 0) + math.sqrt(1 / 3)) < 1e-15
    assert abs(cg_exact(2, 2, 1, -1, 3, 1) - math.sqrt(1 / 3)) < 1e-15
    assert abs(cg_exact(2, 2, 1, -1, 1, 1) - math.sqrt(2 / 3)) < 1e-15
    assert abs(cg_exact(4, 2, 2, -2, 2, 0) - math.sqrt(3 / 10)) < 1e-15  # <2 1 1 -1|1 0>
    b = 0.7
    d1 = wigner_d_exact(2, b)
    ref = np.array(
        [
            [(1 + math.cos(b)) / 2, math.sin(b) / math.sqrt(2), (1 - math.cos(b)) / 2],
            [-math.sin(b) / math.sqrt(2), math.cos(b), math.sin(b) / math.sqrt(2)],
            [(1 - math.cos(b)) / 2, -math.sin(b) / math.sqrt(2), (1 + math.cos(b)) / 2],
        ]
    )
    # basis ordered m=-1,0,1 ; d^1_{1,1}=(1+cos)/2, d^1_{1,0}=-sin/sqrt2, d^1_{0,1}=+sin/sqrt2
    assert np.allclose(d1, ref, atol=1e-15), (d1, ref)
    for j2 in range(0, 9):
        assert np.allclose(wigner_d_exact(j2, 1.3), wigner_d_expm(j2, 1.3), atol=1e-13)
    dh = wigner_d_exact(1, b)
    assert np.allclose(dh, [[math.cos(b / 2), math.sin(b / 2)], [-math.sin(b / 2), math.cos(b / 2)]])
    u = rz(0.3) @ ry(1.1) @ rz(-2.0)
    a, bb, g = euler_from_su2(u)
    assert np.allclose(rz(a) @ ry(bb) @ rz(g), u)
    assert np.allclose(wigner_D(1, 0.3, 1.1, -2.0)[::-1, ::-1], u)  # wigner_D basis is m ascending
    return True


if __name__ == "__main__":
    print(selftest())
