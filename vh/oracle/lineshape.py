"""Independent NumPy transcription of the documented line-shape / barrier formulas.

Written from the docstrings and the textbook definitions only (no tf_pwa import):
* Blatt-Weisskopf: B'_L(q,q0,d) = sqrt(|theta_L(i q0 d)|^2 / |theta_L(i q d)|^2), theta_L the reverse
  Bessel polynomial, evaluated by its three-term recurrence on a complex argument.
* running width Gamma(m) = Gamma0 (q/q0)^(2L+1) (m0/m) B'_L(q,q0,d)^2
* BW family 1/(m0^2 - m^2 - i m0 Gamma)
"""
import numpy as np


def theta_abs2(L, w):
    """|theta_L(i w)|^2 via the recurrence theta_n = (2n-1) theta_{n-1} + x^2 theta_{n-2}"""
    w = np.asarray(w, dtype=float)
    x = 1j * w
    t0 = np.ones_like(x)
    if L == 0:
        return np.abs(t0) ** 2
    t1 = x + 1
    for n in range(2, L + 1):
        t0, t1 = t1, (2 * n - 1) * t1 + x * x * t0
    return np.abs(t1) ** 2


def theta_poly_q2(L, z):
    """the same |theta_L|^2 as a polynomial in z = (q d)^2, valid for negative z as well (analytic continuation):
    theta_L(i w) theta_L(-i w) with w^2 = z, built by polynomial arithmetic on the recurrence."""
    # represent theta_n(x) as polynomial coefficients in x (ascending)
    P = [np.array([1.0]), np.array([1.0, 1.0])]
    for n in range(2, L + 1):
        a = (2 * n - 1) * P[n - 1]
        b = np.concatenate([[0.0, 0.0], P[n - 2]])
        m = max(len(a), len(b))
        P.append(np.pad(a, (0, m - len(a))) + np.pad(b, (0, m - len(b))))
    c = P[L]
    # theta(i w) theta(-i w) = (E(w) + i O(w)) (E - i O) = E^2 + O^2 with E even part, O odd part in x=i w
    # even powers x^{2k} = (-z)^k ; odd powers x^{2k+1} = i w (-z)^k
    z = np.asarray(z, dtype=float)
    E = sum(c[k] * (-z) ** (k // 2) for k in range(0, len(c), 2))
    O = sum(c[k] * (-z) ** (k // 2) for k in range(1, len(c), 2))  # coefficient of (i w)
    return E * E + z * O * O


def bprime(L, q, q0, d=3.0):
    return np.sqrt(theta_abs2(L, np.asarray(q0) * d) / theta_abs2(L, np.asarray(q) * d))


def q_of(m, m1, m2):
    lam = (m * m - (m1 + m2) ** 2) * (m * m - (m1 - m2) ** 2)
    return np.sqrt(np.maximum(lam, 0.0)) / (2 * m)


def q2_of(m, m1, m2):
    return (m * m - (m1 + m2) ** 2) * (m * m - (m1 - m2) ** 2) / (4 * m * m)


def gamma_run(m, m0, g0, q, q0, L, d=3.0):
    return g0 * (q / q0) ** (2 * L + 1) * (m0 / m) * bprime(L, q, q0, d) ** 2


def BW(m, m0, g0):
    return 1.0 / (m0 * m0 - m * m - 1j * m0 * g0)


def BWR(m, m0, g0, m1, m2, L, d=3.0):
    q = q_of(m, m1, m2)
    q0 = q_of(m0, m1, m2)
    return 1.0 / (m0 * m0 - m * m - 1j * m0 * gamma_run(m, m0, g0, q, q0, L, d))


def selftest():
    w = np.array([0.3, 1.7])
    assert np.allclose(theta_abs2(1, w), w**2 + 1)
    assert np.allclose(theta_abs2(2, w), w**4 + 3 * w**2 + 9)
    assert np.allclose(theta_abs2(3, w), w**6 + 6 * w**4 + 45 * w**2 + 225)
    for L in range(0, 9):
        assert np.allclose(theta_poly_q2(L, w**2), theta_abs2(L, w), rtol=1e-12)
    assert abs(bprime(3, 0.7, 0.7) - 1) < 1e-15
    r = BWR(1.2, 1.2, 0.1, 0.3, 0.4, 2)
    assert abs(r - 1j / (1.2 * 0.1)) < 1e-12
    return True


if __name__ == "__main__":
    print(selftest())
